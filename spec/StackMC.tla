------------------------------ MODULE StackMC ------------------------------
(***************************************************************************)
(* MC use of Stack.tla: a small reference machine - one register, up to    *)
(* two Pull streams, a client that behaves like the harness (reads the     *)
(* register before and after every step, consumes stream messages the way  *)
(* the harness does) - produces observations in the shape StackTrace.tla   *)
(* reads.  The server side is as free as the property text leaves it:      *)
(* an Update may be rejected or may store ANY value (business rules), may  *)
(* or may not echo an Update that changes nothing on the streams, may send *)
(* an intermediate change before the final one, and the initial change of  *)
(* a Pull may carry any name.                                              *)
(*                                                                         *)
(*   RelationsHold   every observation of the reference machine satisfies  *)
(*                   every clause of Stack!Fails (the relations are        *)
(*                   satisfiable and not stricter than the reference)      *)
(*   MutantsCaught   printing invariant: for each seeded defect of the     *)
(*                   machine (constant Mutants) the clauses that reject it *)
(*                   are printed; c14.py requires every mutant be caught   *)
(*                   (the relations are not vacuous)                       *)
(***************************************************************************)
EXTENDS Stack, TLC

CONSTANTS NF,        \* top-level fields of the resource
          MaxId,     \* field values 0..MaxId
          MaxSteps,  \* client steps per behaviour
          Mutants    \* set of seeded defects explored besides "none"

VARIABLES reg, streams, obs, steps, mut, caught,
          nudged,      \* a Nudge has been made: the history then only ends with Nudges and Gets (as generated: afterwards
                       \* the register is within tolerance of what the streams last showed)
          timer, tv    \* timed behaviour started by a TimedUpdate: "off" | "armed" | "stale" (superseded, but a defective
                       \* server still lets it fire), and the value it will write

vars == <<reg, streams, obs, steps, mut, caught, timer, tv, nudged>>

Vals  == [1..NF -> 0..MaxId]
Names == {"a", "b"}
\* (sub-field selections are opaque numbers supplied by the abstraction; the machine uses whole fields only)
M(n, ps) == [nil |-> n, paths |-> ps, nested |-> <<>>]
Masks == { M(TRUE, <<>>), M(FALSE, <<>>), M(FALSE, <<1>>), M(FALSE, <<NF>>), M(FALSE, <<1, NF>>) }
Zero  == [i \in 1..NF |-> 0]
NoObs == [op |-> "none"]

G(v) == [ok |-> TRUE, v |-> v]

\* what the harness logs about a stream before touching it
Snap(s) == [sid |-> s.sid, name |-> s.name, uo |-> s.uo, fresh |-> s.nread = 0, quiet |-> s.pending = 0,
            opened |-> FALSE, awaited |-> FALSE, timeout |-> FALSE, ended |-> IF s.dead THEN "EOF" ELSE "", vopen |-> s.vopen, msgs |-> <<>>,
            mask |-> s.mask, sub |-> Zero, psub |-> Zero, rsub |-> Zero]

\* the harness waits for a change carrying want: it reads the queue up to and including the first such change
FirstIdx(q, want) == IF \E k \in 1..Len(q) : q[k].v = want
                       THEN CHOOSE k \in 1..Len(q) : q[k].v = want /\ \A l \in 1..(k-1) : q[l].v # want
                       ELSE 0
Await(s, want) ==
  LET k == FirstIdx(s.q, want)
      got == IF k = 0 THEN s.q ELSE SubSeq(s.q, 1, k)
  IN [snap |-> [Snap(s) EXCEPT !.awaited = TRUE, !.timeout = (k = 0), !.msgs = got],
      next |-> [s EXCEPT !.q = IF k = 0 THEN <<>> ELSE SubSeq(s.q, k + 1, Len(s.q)),
                         !.nread = s.nread + Len(got), !.pending = 0]]

Init ==
  /\ reg \in Vals
  /\ streams = <<>>
  /\ obs = NoObs
  /\ steps = 0
  /\ mut \in {"none"} \cup Mutants
  /\ caught = FALSE
  /\ timer = "off"
  /\ tv = Zero
  /\ nudged = FALSE

Other(a, b) == CHOOSE w \in Vals : w # a /\ w # b

\* ---- Update -----------------------------------------------------------------
Update(x, m, reject, r, echo, inter, interOld) ==
  LET base == [op |-> "Update", pre |-> G(reg), mask |-> m, sub |-> Zero] IN
  IF reject
    THEN LET newreg == IF mut = "rejected-update-writes" THEN x ELSE reg
             \* the defective server has also published what it wrote; the client reads what is there
             fed == [j \in 1..Len(streams) |->
                       IF mut = "rejected-update-publishes" /\ ~streams[j].dead
                         THEN [streams[j] EXCEPT !.q = @ \o <<[name |-> streams[j].name, v |-> Project(x, streams[j].mask, Zero), ct |-> "after-open"]>>]
                         ELSE streams[j]]
         IN
         /\ reg' = newreg
         /\ UNCHANGED <<timer, tv>>
         /\ streams' = [j \in 1..Len(streams) |-> [fed[j] EXCEPT !.q = <<>>, !.nread = @ + Len(fed[j].q)]]
         /\ obs' = base @@ [code |-> "InvalidArgument", resp |-> Zero, post |-> G(newreg),
                            streams |-> [j \in 1..Len(streams) |-> [Snap(streams[j]) EXCEPT !.msgs = fed[j].q]]]
    ELSE
      LET changed == r # reg
          resp == IF mut = "response-is-request" THEN x ELSE r
          seenChanged == resp # reg      \* what the client takes for "the update changed the value"
          \* what stream j is sent: the value through its own read mask; the seeded defect filters one shared
          \* event in place, so stream j gets it through the masks of the streams before it as well
          RECURSIVE Through(_, _)
          Through(val, j) == IF j = 0 THEN val ELSE Project(Through(val, j - 1), streams[j].mask, Zero)
          Pj(val, j) == IF mut = "shared-event-filtered-in-place" THEN Through(val, j) ELSE Project(val, streams[j].mask, Zero)
          emit(j) == LET s == streams[j]
                         nm == IF mut = "constant-name" THEN "a" ELSE s.name IN
                     IF mut = "no-stream-events" \/ s.dead THEN <<>>
                     ELSE IF changed THEN (IF inter THEN <<[name |-> nm, v |-> Pj(IF interOld THEN reg ELSE Other(reg, r), j), ct |-> "after-open"]>> ELSE <<>>)
                                          \o <<[name |-> nm, v |-> Pj(r, j), ct |-> "after-open"]>>
                     ELSE IF echo THEN <<[name |-> nm, v |-> Pj(r, j), ct |-> "after-open"]>> ELSE <<>>
          fed == [j \in 1..Len(streams) |-> [streams[j] EXCEPT !.q = @ \o emit(j)]]
          want(j) == Project(resp, streams[j].mask, Zero)
          \* the client waits on a stream iff what the stream shows changes
          need(j) == seenChanged /\ want(j) # Project(reg, streams[j].mask, Zero)
          aw  == [j \in 1..Len(streams) |-> Await(fed[j], want(j))]
      IN
      /\ reg' = r
      /\ timer' = (IF timer = "armed" THEN (IF mut = "late-timer-overwrites" THEN "stale" ELSE "off") ELSE timer)
      /\ tv' = tv
      /\ streams' = [j \in 1..Len(streams) |->
                       IF need(j) THEN aw[j].next ELSE [fed[j] EXCEPT !.pending = @ + 1]]
      /\ obs' = base @@ [code |-> "OK", resp |-> resp, post |-> G(r),
                         streams |-> [j \in 1..Len(streams) |-> IF need(j) THEN aw[j].snap ELSE Snap(streams[j])]]

\* ---- Get --------------------------------------------------------------------
Get(m) ==
  /\ reg' = (IF mut = "get-writes" THEN Project(reg, m, Zero) ELSE reg)
  /\ UNCHANGED <<streams, timer, tv>>
  /\ obs' = [op |-> "Get", pre |-> G(reg), post |-> G(reg'), code |-> "OK", mask |-> m, sub |-> Zero,
             resp |-> IF mut = "get-ignores-mask" THEN reg ELSE Project(reg, m, Zero),
             streams |-> [j \in 1..Len(streams) |-> Snap(streams[j])]]

\* ---- OpenPull ---------------------------------------------------------------
Open(uo, name, initName, pm) ==
  LET sid == steps + 1
      seed == IF (uo /\ mut # "ignores-updates-only") \/ mut = "no-initial-value" THEN <<>> ELSE <<[name |-> initName, v |-> Project(reg, pm, Zero), ct |-> "before-open"]>>
      s0 == [sid |-> sid, name |-> name, uo |-> uo, nread |-> 0, pending |-> 0, vopen |-> reg, q |-> seed, dead |-> FALSE, mask |-> pm]
      \* the harness reads one message from a Pull that is not updates-only
      readOne == ~uo
      got == IF readOne /\ seed # <<>> THEN <<seed[1]>> ELSE <<>>
      s1 == IF readOne THEN [s0 EXCEPT !.q = IF seed = <<>> THEN <<>> ELSE Tail(seed), !.nread = Len(got)] ELSE s0
      snap == [Snap(s0) EXCEPT !.opened = TRUE, !.awaited = readOne, !.timeout = readOne /\ got = <<>>, !.msgs = got]
  IN
  /\ Len(streams) < 2
  /\ UNCHANGED <<timer, tv>>
  /\ reg' = reg
  /\ streams' = Append(streams, s1)
  /\ obs' = [op |-> "OpenPull", pre |-> G(reg), post |-> G(reg), code |-> "OK", mask |-> M(TRUE, <<>>), sub |-> Zero,
             resp |-> Zero, streams |-> [j \in 1..Len(streams) |-> Snap(streams[j])] \o <<snap>>]

\* ---- CloseStream ------------------------------------------------------------
Close(i) ==
  /\ i \in 1..Len(streams)
  /\ UNCHANGED <<timer, tv>>
  /\ reg' = reg
  /\ streams' = [j \in 1..(Len(streams) - 1) |-> IF j < i THEN streams[j] ELSE streams[j + 1]]
  /\ obs' = [op |-> "CloseStream", pre |-> G(reg), post |-> G(reg), code |-> "OK", mask |-> M(TRUE, <<>>), sub |-> Zero,
             resp |-> Zero, streams |-> [j \in 1..Len(streams) |-> IF j = i THEN [Snap(streams[j]) EXCEPT !.msgs = streams[j].q]
                                                                           ELSE Snap(streams[j])]]

\* ---- another record of the same collection is deleted / created ------------------
OtherRecord ==
  /\ UNCHANGED <<timer, tv>>
  /\ reg' = reg
  /\ streams' = [j \in 1..Len(streams) |-> [streams[j] EXCEPT !.dead = @ \/ mut = "other-delete-ends-streams"]]
  /\ obs' = [op |-> "Other", pre |-> G(reg), post |-> G(reg), code |-> "OK", mask |-> M(TRUE, <<>>), sub |-> Zero,
             resp |-> Zero, streams |-> [j \in 1..Len(streams) |-> Snap(streams[j])]]

\* ---- timed behaviour ------------------------------------------------------------
\* an Update carrying a duration: stores a start value r and will write w when the time is up
TimedUpdate(r, w) ==
  LET P(val, j) == Project(val, streams[j].mask, Zero)
      fed == [j \in 1..Len(streams) |->
                [streams[j] EXCEPT !.q = IF streams[j].dead THEN @ ELSE @ \o <<[name |-> streams[j].name, v |-> P(r, j), ct |-> "after-open"]>>]]
      aw  == [j \in 1..Len(streams) |-> Await(fed[j], P(r, j))]     \* the client consumes the update's own change
      need(j) == P(r, j) # P(reg, j)
  IN
  /\ timer = "off"
  /\ reg' = r /\ timer' = "armed" /\ tv' = w
  /\ streams' = [j \in 1..Len(streams) |-> IF need(j) THEN aw[j].next ELSE [fed[j] EXCEPT !.pending = @ + 1]]
  /\ obs' = [op |-> "TimedUpdate", pre |-> G(reg), post |-> G(r), code |-> "OK", mask |-> M(TRUE, <<>>), sub |-> Zero,
             resp |-> r, streams |-> [j \in 1..Len(streams) |-> IF need(j) THEN aw[j].snap ELSE Snap(streams[j])]]

\* time passes; the client then reads whatever arrived on the streams without waiting
Wait ==
  LET fires == timer \in {"armed", "stale"}
      newreg == IF fires THEN tv ELSE reg
      fed == [j \in 1..Len(streams) |-> IF fires /\ ~streams[j].dead
                                          THEN [streams[j] EXCEPT !.q = @ \o <<[name |-> streams[j].name, v |-> Project(tv, streams[j].mask, Zero), ct |-> "after-open"]>>]
                                          ELSE streams[j]]
  IN
  /\ reg' = newreg /\ timer' = "off" /\ tv' = tv
  /\ streams' = [j \in 1..Len(streams) |-> [fed[j] EXCEPT !.q = <<>>, !.nread = @ + Len(fed[j].q)]]
  /\ obs' = [op |-> "Wait", pre |-> G(reg), post |-> G(newreg), code |-> "OK", mask |-> M(TRUE, <<>>), sub |-> Zero,
             resp |-> Zero, armed |-> (timer = "armed"),
             streams |-> [j \in 1..Len(streams) |-> [Snap(streams[j]) EXCEPT !.msgs = fed[j].q]]]

\* ---- a change smaller than any tolerance: stored and answered, due on no stream ----
Nudge(r, echo) ==
  LET stored == IF mut = "equivalent-write-not-stored" THEN reg ELSE r IN
  /\ reg' = stored
  /\ UNCHANGED <<timer, tv>>
  /\ streams' = [j \in 1..Len(streams) |->
                   [streams[j] EXCEPT !.pending = @ + 1,
                                      !.q = IF echo /\ ~streams[j].dead /\ stored = r
                                              THEN @ \o <<[name |-> streams[j].name, v |-> Project(r, streams[j].mask, Zero), ct |-> "after-open"]>>
                                              ELSE @]]
  /\ obs' = [op |-> "Nudge", pre |-> G(reg), post |-> G(stored), code |-> "OK", mask |-> M(TRUE, <<>>), sub |-> Zero,
             resp |-> r, streams |-> [j \in 1..Len(streams) |-> Snap(streams[j])]]

StepAny ==
  \* the update mask and the written value do not influence the reference machine (business rules are
  \* opaque), so they are not varied except where a mutant uses the written value
  \/ \E x \in (IF mut \in {"response-is-request", "rejected-update-writes", "rejected-update-publishes"} THEN Vals ELSE {reg}),
        m \in {M(TRUE, <<>>)}, reject \in BOOLEAN, r \in Vals, echo \in BOOLEAN, inter \in BOOLEAN, interOld \in BOOLEAN :
       /\ (reject => r = reg /\ ~echo /\ ~inter)          \* irrelevant choices collapsed
       /\ (r = reg => ~inter) /\ (r # reg => ~echo) /\ (~inter => ~interOld)
       /\ (inter => Cardinality(Vals) > 2)
       /\ Update(x, m, reject, r, echo, inter, interOld)
  \/ \E m \in Masks : Get(m)
  \/ \E uo \in BOOLEAN, name \in Names, initName \in Names, pm \in {M(TRUE, <<>>), M(FALSE, <<1>>), M(FALSE, <<NF>>)} :
       /\ (uo => initName = name) /\ (~pm.nil => name = "a" /\ initName = "a")      \* irrelevant combinations collapsed
       /\ Open(uo, name, initName, pm)
  \/ \E i \in 1..2 : Close(i)
  \/ OtherRecord
  \/ TimedUpdate(Other(reg, reg), Other(reg, Other(reg, reg)))   \* one representative: start value # target # current
  \/ Wait
  \/ \E echo \in BOOLEAN : Nudge(Other(reg, reg), echo)

Step ==
  IF nudged THEN (\/ \E m \in Masks : Get(m)
                  \/ \E echo \in BOOLEAN : Nudge(Other(reg, reg), echo)) /\ nudged' = TRUE
  ELSE StepAny /\ nudged' = (obs'.op = "Nudge")

Next ==
  /\ steps < MaxSteps
  /\ ~caught                       \* a mutant behaviour ends where it is first rejected
  /\ Step
  /\ steps' = steps + 1
  /\ mut' = mut
  /\ caught' = (Hard(obs') # {})

Spec == Init /\ [][Next]_vars

RelationsHold == (mut = "none" /\ obs # NoObs) => Fails(obs) = {}   \* not even a soft clause
MutantsCaught == (mut # "none" /\ caught) => PrintT("CAUGHT " \o mut \o " " \o ToString(Hard(obs)))

\* all states in which a mutant has been rejected by the same clauses are one state for the search
View == IF caught THEN <<mut, Hard(obs)>> ELSE vars
=============================================================================
