---------------------------- MODULE FanSpeed ----------------------------
(***************************************************************************)
(* C20, fanspeedpb.Model + ModelServer.UpdateFanSpeed.  A table of        *)
(* presets <<[name, pct]>> (the index of a preset is its position,        *)
(* 0-based); the state is [preset, index, pct].  An update writes a whole *)
(* fan speed; what the client CHANGED decides which field the other two   *)
(* are derived from, in the precedence preset > index > percentage.  A    *)
(* relative update first adds the current index and percentage to the     *)
(* written ones.  Percentages are whole numbers (exact in float32).       *)
(*                                                                         *)
(* The property pins the result down only when a known preset is          *)
(* involved (Settled); requests that clear the preset, start from an      *)
(* empty preset or name an unknown preset are modelled after the          *)
(* implementation so that walks can continue, but NOT asserted.           *)
(***************************************************************************)
EXTENDS Integers, Sequences, FiniteSets

DefaultPresets == << [name |-> "off", pct |-> 0], [name |-> "low", pct |-> 15], [name |-> "med", pct |-> 40],
                     [name |-> "high", pct |-> 75], [name |-> "full", pct |-> 100] >>
DefaultInit == [preset |-> "off", index |-> 0, pct |-> 0]

(* Configuration = the SEQUENCE of constructor options handed to NewModel,  *)
(* each kind at most once: [kind |-> "presets", presets], [kind |-> "init", *)
(* init] (WithInitialFanSpeed or a resource initial value), [kind |->      *)
(* "clock"].  What a model is configured with does not depend on the order *)
(* of the options: the presets given are the presets, the initial fan      *)
(* speed given is the initial fan speed.                                   *)
OptsOf(opts, kind) == SelectSeq(opts, LAMBDA o : o.kind = kind)
HasOpt(opts, kind) == OptsOf(opts, kind) # <<>>
ConfPresets(opts) == IF HasOpt(opts, "presets") THEN OptsOf(opts, "presets")[1].presets ELSE DefaultPresets
ConfInit(opts) == IF HasOpt(opts, "init") THEN OptsOf(opts, "init")[1].init ELSE DefaultInit

Known(ps, p) == \E k \in 1..Len(ps) : ps[k].name = p
\* first position (1-based) of the preset named p
Pos(ps, p) == CHOOSE k \in 1..Len(ps) : ps[k].name = p /\ \A j \in 1..(k - 1) : ps[j].name # p
Triple(ps, k) == [preset |-> ps[k].name, index |-> k - 1, pct |-> ps[k].pct]
Clamp(ps, i) == IF i < 0 THEN 0 ELSE IF i > Len(ps) - 1 THEN Len(ps) - 1 ELSE i
Matches(ps, pct) == { k \in 1..Len(ps) : ps[k].pct = pct }
Min(S) == CHOOSE x \in S : \A y \in S : x <= y

\* preset # "" => index and percentage are those of the preset
Consistent(ps, s) == s.preset # "" => Known(ps, s.preset) /\ s = Triple(ps, Pos(ps, s.preset))

\* what a request amounts to after the relative adjustment (the preset cannot be set relatively)
Eff(pre, req) == [preset |-> req.preset,
                  index |-> IF req.relative THEN req.index + pre.index ELSE req.index,
                  pct |-> IF req.relative THEN req.pct + pre.pct ELSE req.pct]

Settled(ps, pre, req) ==
  LET e == Eff(pre, req) IN
  \/ Known(ps, e.preset) /\ e.preset # pre.preset            \* a preset is selected
  \/ e.preset = pre.preset /\ Known(ps, pre.preset)           \* the selected preset is echoed

Update(ps, pre, req) ==
  LET e == Eff(pre, req) IN
  IF e.preset # "" /\ ~Known(ps, e.preset) THEN [err |-> "InvalidArgument", post |-> pre]
  ELSE IF e.preset # pre.preset THEN
         [err |-> "OK", post |-> IF e.preset = "" THEN e ELSE Triple(ps, Pos(ps, e.preset))]
  ELSE IF e.index # pre.index THEN [err |-> "OK", post |-> Triple(ps, Clamp(ps, e.index) + 1)]
  ELSE IF e.pct # pre.pct THEN
         [err |-> "OK", post |-> IF Matches(ps, e.pct) # {} THEN Triple(ps, Min(Matches(ps, e.pct)))
                                 ELSE [preset |-> "", index |-> -1, pct |-> e.pct]]
  ELSE [err |-> "OK", post |-> pre]
=============================================================================
