---------------------------- MODULE EnterLeaveGen ----------------------------
(***************************************************************************)
(* Gen use of EnterLeave.tla: an initial event with any subset of the two *)
(* totals (or none: the default model), then 10..MaxOps events in random  *)
(* directions, some carrying totals (often equal to a plausible current   *)
(* one), and resets.                                                      *)
(***************************************************************************)
EXTENDS EnterLeave, TLC, Json

CONSTANTS NCases, MaxOps
VARIABLE c

R(S) == RandomElement(S)
Flip(z, pct) == RandomElement(1..100) <= pct
Pick(z, seq) == seq[RandomElement(1..Len(seq))]
OptTotal(z, pct) == IF Flip(z, pct) THEN Some(R(0..12)) ELSE None

Op(z) ==
  LET op == Pick(z, <<"Event", "Event", "Event", "Event", "Event", "Event", "Event", "Event", "Reset">>)
  IN [op |-> op, dir |-> Pick(z, <<"ENTER", "ENTER", "LEAVE", "LEAVE", "DIRECTION_UNSPECIFIED">>),
      se |-> OptTotal(z, 25), sl |-> OptTotal(z, 25)]

Prog(k) ==
  LET hasInit == Flip(k, 70)
  IN [model |-> "enterleave", n |-> k,
      cfg |-> [hasInit |-> hasInit,
               init |-> IF hasInit THEN [enter |-> OptTotal(k, 60), leave |-> OptTotal(k, 60)] ELSE DefaultInit],
      ops |-> [j \in 1..R(10..MaxOps) |-> Op(k)]]

GenInit == c \in { Prog(k) : k \in 1..NCases }
GenNext == UNCHANGED c
EmitCase == PrintT("CASE " \o ToJson(c))
=============================================================================
