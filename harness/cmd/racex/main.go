// Command racex runs TLC-generated concurrent workload programs (spec/RaceGen.tla) against the
// real library FREE-RUNNING in a -race build: every process of a program is one goroutine that
// executes its list of operation kinds; the goroutines are released together and are never
// synchronised by the harness while they run (gates would add happens-before edges and hide
// races).  The Go race detector is the oracle: its reports go to stderr, between markers that say
// which program was running; lib/checks/c11.py parses them.
//
// Harness discipline (so that the harness neither hides nor causes races):
//   - per-process state only (own rand, own counters); results are collected after wg.Wait;
//   - callbacks, interceptors and consumers only READ what they are given (proto.Clone/proto.Equal
//     touch every field), except where the API documents that the callback may write (the new
//     value of InterceptBefore/InterceptAfter, the message of WithIDCallback) - those are private
//     to the call;
//   - no shared atomics, no shared logging while a program runs.
//
// One line of obs.ndjson per program says what ran (spec/RaceTrace.tla checks that the program
// really exercised a concurrent conflicting pair, so that a vacuous workload cannot pass).
package main

import (
	"fmt"
	"os"
	"runtime"
	"sort"
	"sync"
	"time"

	"github.com/smart-core-os/sc-golang/verifharness/hx"
)

type progT struct {
	N      int        `json:"n"`
	Family string     `json:"family"`
	Procs  [][]string `json:"procs"`
	Inst   int        `json:"inst"` // instances of every type in the program's world (1..3)
	On     []int      `json:"on"`   // per process: the instance (1-based) all of its operations use
	Iters  int        `json:"iters"`
}

type obsT struct {
	N       int            `json:"n"`
	Family  string         `json:"family"`
	Procs   [][]string     `json:"procs"`
	Inst    int            `json:"inst"`
	On      []int          `json:"on"`
	Iters   int            `json:"iters"`
	Done    []int          `json:"done"`    // per process: operations completed over all iterations
	Planned []int          `json:"planned"` // per process: iters * len(ops)
	Ops     map[string]int `json:"ops"`     // per kind: completed
	Errs    int            `json:"errs"`    // operations that returned an error (expected under contention)
	Panics  []string       `json:"panics"`  // operations that panicked (recovered), first few
	Events  int            `json:"events"`  // events read by consumers
	Problem string         `json:"problem"` // the program could not be run to the end (inconclusive, never a verdict)
	WallUs  int64          `json:"wall_us"`
}

// proc is the private state of one process (goroutine) of a program.
type proc struct {
	p      int
	in     int // instance (0-based) this process works on
	seq    int
	rnd    *lrand
	done   int
	errs   int
	events int
	ops    map[string]int
	panics []string
	lastID map[string]string // per object family: an id this process created
	prob   string
}

// lrand is a tiny private generator (math/rand.Rand would do as well; this keeps the harness free of
// anything that could show up in a report about math/rand).
type lrand struct{ s uint64 }

func (r *lrand) next() uint64 {
	r.s ^= r.s << 13
	r.s ^= r.s >> 7
	r.s ^= r.s << 17
	return r.s
}
func (r *lrand) n(k int) int { return int(r.next() % uint64(k)) }

func marker(format string, a ...any) {
	// stderr is where the race runtime writes its reports: the markers delimit programs in that stream
	fmt.Fprintf(os.Stderr, "RACEX "+format+"\n", a...)
}

func main() {
	cases := hx.ReadCases[progT](hx.Arg("-cases", "cases.ndjson"))
	out := hx.NewOut(hx.Arg("-out", "obs.ndjson"))
	defer out.Close()
	budget := time.Duration(hx.ArgInt("-budget-ms", 0)) * time.Millisecond
	t0 := time.Now()
	base := runtime.NumGoroutine()
	for _, c := range cases {
		if c.Iters <= 0 {
			c.Iters = 1
		}
		hx.Current(map[string]any{"n": c.N, "family": c.Family, "procs": c.Procs})
		marker("BEGIN %d", c.N)
		o := runProgram(c, base)
		marker("END %d", c.N)
		out.Write(o)
		if o.Problem != "" {
			// a stuck program leaves goroutines behind that would disturb every later program
			marker("ABORT %d %s", c.N, o.Problem)
			break
		}
		if budget > 0 && time.Since(t0) > budget {
			marker("BUDGET reached after program %d", c.N)
			break
		}
	}
	marker("DONE")
}

func runProgram(c progT, base int) obsT {
	if c.Inst < 1 {
		c.Inst = 1
	}
	if len(c.On) != len(c.Procs) {
		c.On = make([]int, len(c.Procs))
		for p := range c.On {
			c.On[p] = 1
		}
	}
	o := obsT{N: c.N, Family: c.Family, Procs: c.Procs, Inst: c.Inst, On: c.On, Iters: c.Iters, Ops: map[string]int{}, Panics: []string{}}
	o.Done = make([]int, len(c.Procs))
	o.Planned = make([]int, len(c.Procs))
	for p := range c.Procs {
		o.Planned[p] = c.Iters * len(c.Procs[p])
	}
	for _, i := range c.On {
		if i < 1 || i > c.Inst || c.Inst > 3 {
			o.Problem = "bad instance assignment"
			return o
		}
	}
	need := map[string]bool{}
	for _, ops := range c.Procs {
		for _, k := range ops {
			f, ok := opTable[k]
			if !ok {
				o.Problem = "unknown operation kind " + k
				return o
			}
			for _, obj := range f.needs {
				need[obj] = true
			}
		}
	}
	t0 := time.Now()
	for it := 0; it < c.Iters && o.Problem == ""; it++ {
		w := newWorld(need, c.Inst)
		procs := make([]*proc, len(c.Procs))
		for p := range c.Procs {
			procs[p] = &proc{p: p, in: c.On[p] - 1, rnd: &lrand{s: uint64(hx.Seed())*7919 + uint64(c.N)*104729 + uint64(it)*1299709 + uint64(p)*15485863 + 88172645463325252},
				ops: map[string]int{}, lastID: map[string]string{}}
		}
		var wg sync.WaitGroup
		start := make(chan struct{})
		for p := range c.Procs {
			wg.Add(1)
			go func(pr *proc, ops []string) {
				defer wg.Done()
				<-start // the only harness synchronisation: everything created so far happens before every process
				for _, k := range ops {
					pr.seq++
					f := opTable[k]
					var err error
					if pn := hx.Catch(func() { err = f.run(w, pr) }); pn != "" {
						if len(pr.panics) < 3 {
							pr.panics = append(pr.panics, k+": "+pn)
						}
					}
					if err != nil {
						pr.errs++
					}
					pr.done++
					pr.ops[k]++
				}
			}(procs[p], c.Procs[p])
		}
		close(start)
		finished := make(chan struct{})
		go func() { wg.Wait(); close(finished) }()
		select {
		case <-finished:
		case <-time.After(20 * time.Second):
			buf := make([]byte, 1<<16)
			buf = buf[:runtime.Stack(buf, true)]
			o.Problem = fmt.Sprintf("iteration %d did not finish within 20s", it)
			fmt.Fprintf(os.Stderr, "RACEX STUCK %d\n%s\n", c.N, buf)
			return o
		}
		w.close()
		for p, pr := range procs {
			o.Done[p] += pr.done
			o.Errs += pr.errs
			o.Events += pr.events
			for k, n := range pr.ops {
				o.Ops[k] += n
			}
			for _, s := range pr.panics {
				if len(o.Panics) < 5 {
					o.Panics = append(o.Panics, s)
				}
			}
			if pr.prob != "" && o.Problem == "" {
				o.Problem = pr.prob
			}
		}
	}
	// let goroutines of this program (stop watchers, abandoned group members, alarms) end so that what they do
	// is reported while this program is the current one
	for i := 0; i < 40 && runtime.NumGoroutine() > base+2; i++ {
		time.Sleep(500 * time.Microsecond)
	}
	o.WallUs = time.Since(t0).Microseconds()
	sort.Strings(o.Panics)
	return o
}
