package main

import (
	"context"
	"encoding/json"
	"math"
	"sort"

	"github.com/smart-core-os/sc-api/go/traits"
	"github.com/smart-core-os/sc-golang/pkg/resource"
	"github.com/smart-core-os/sc-golang/pkg/trait/vendingpb"
	"github.com/smart-core-os/sc-golang/pkg/trait/vendingpb/unitpb"
	"github.com/smart-core-os/sc-golang/verifharness/hx"
)

// ---- Vending.tla: quantities as [has, unit, m] with m = thousandths of the unit ----

type absQ struct {
	Has  bool   `json:"has"`
	Unit string `json:"unit"`
	M    int64  `json:"m"`
}
type absStock struct {
	Name      string `json:"name"`
	Used      absQ   `json:"used"`
	Remaining absQ   `json:"remaining"`
}
type optStock struct {
	Has bool     `json:"has"`
	V   absStock `json:"v"`
}
type vendState struct {
	Inv  []absStock `json:"inv"`
	Cons []string   `json:"cons"`
}
type plainQ struct {
	Unit string `json:"unit"`
	M    int64  `json:"m"`
}

var noQ = absQ{Unit: "NO_UNIT"}

func unitOf(s string) traits.Consumable_Unit {
	v, ok := traits.Consumable_Unit_value[s]
	if !ok {
		hx.Fatal("vending: unknown unit %q", s)
	}
	return traits.Consumable_Unit(v)
}

// milli turns an amount into integer thousandths; amounts the specification cannot hold become -7
func milli(v float64) int64 {
	m := math.Round(v * 1000)
	if math.IsNaN(m) || math.Abs(m) > 2e9 {
		return -7
	}
	return int64(m)
}
func absQOf(q *traits.Consumable_Quantity) absQ {
	if q == nil {
		return noQ
	}
	return absQ{Has: true, Unit: q.Unit.String(), M: milli(float64(q.Amount))}
}
func concQ(q absQ) *traits.Consumable_Quantity {
	if !q.Has {
		return nil
	}
	return &traits.Consumable_Quantity{Unit: unitOf(q.Unit), Amount: float32(float64(q.M) / 1000)}
}
func absStockOf(s *traits.Consumable_Stock) absStock {
	return absStock{Name: s.GetConsumable(), Used: absQOf(s.GetUsed()), Remaining: absQOf(s.GetRemaining())}
}
func optStockOf(s *traits.Consumable_Stock) optStock {
	if s == nil {
		return optStock{V: absStock{Used: noQ, Remaining: noQ}}
	}
	return optStock{Has: true, V: absStockOf(s)}
}
func concStock(s absStock) *traits.Consumable_Stock {
	return &traits.Consumable_Stock{Consumable: s.Name, Used: concQ(s.Used), Remaining: concQ(s.Remaining)}
}

// vendRead lists both collections; a panic while listing is reported, not fatal
func vendRead(m *vendingpb.Model) (vendState, string) {
	st := vendState{Inv: []absStock{}, Cons: []string{}}
	p1 := hx.Catch(func() {
		for _, s := range m.ListInventory() {
			st.Inv = append(st.Inv, absStockOf(s))
		}
	})
	if p1 != "" {
		st.Inv = []absStock{}
	}
	p2 := hx.Catch(func() {
		for _, c := range m.ListConsumables() {
			st.Cons = append(st.Cons, c.GetName())
		}
	})
	if p2 != "" {
		st.Cons = []string{}
	}
	if p1 != "" {
		return st, "ListInventory: " + p1
	}
	if p2 != "" {
		return st, "ListConsumables: " + p2
	}
	return st, ""
}

type vendOp struct {
	Op    string   `json:"op"`
	Name  string   `json:"name"`
	Q     plainQ   `json:"q"`
	Unit2 string   `json:"unit2"`
	Stock absStock `json:"stock"`
}
type vendOpt struct {
	Kind   string     `json:"kind"` // stock | cons | clock
	Stocks []absStock `json:"stocks"`
	Cons   []string   `json:"cons"`
	Via    string     `json:"via"` // "initial": WithInitialStock / WithInitialConsumable; "option": With{Inventory,Consumables}Option(records)
}
type vendWalk struct {
	N   int `json:"n"`
	Cfg struct {
		Opts   []vendOpt  `json:"opts"`
		Stocks []absStock `json:"stocks"`
		Cons   []string   `json:"cons"`
	} `json:"cfg"`
	Ops []vendOp `json:"ops"`
}
type vendObs struct {
	Model  string    `json:"model"`
	Walk   int       `json:"walk"`
	Step   int       `json:"step"`
	Op     string    `json:"op"`
	Via    string    `json:"via"`
	Name   string    `json:"name"`
	Q      plainQ    `json:"q"`
	Unit2  string    `json:"unit2"`
	Stock  absStock  `json:"stock"`
	Pre    vendState `json:"pre"`
	Post   vendState `json:"post"`
	Ret    optStock  `json:"ret"`
	Err    string    `json:"err"`
	Fwd    int64     `json:"fwd"`
	Back   int64     `json:"back"`
	Finite bool      `json:"finite"` // Convert: both results are finite numbers
	Units  []string  `json:"units"`  // New: the names of every value of the unit enum
	Opts   []vendOpt `json:"opts"`   // New: the option sequence
	Seed   vendState `json:"seed"`   // New: what the PullInventory / PullConsumables seeds hold
	Panic  string    `json:"panic"`
	RPanic string    `json:"rpanic"`
}

func init() { register("vending", runVending) }

func runVending(raw json.RawMessage, out *hx.Out) {
	w := decode[vendWalk](raw)
	blank := absStock{Used: noQ, Remaining: noQ}
	o := vendObs{Model: "vending", Walk: w.N, Op: "New", Via: "", Q: plainQ{Unit: "NO_UNIT"}, Unit2: "NO_UNIT",
		Stock: blank, Ret: optStockOf(nil), Err: "OK", Finite: true,
		Pre:  vendState{Inv: w.Cfg.Stocks, Cons: w.Cfg.Cons},
		Post: vendState{Inv: []absStock{}, Cons: []string{}}, Seed: vendState{Inv: []absStock{}, Cons: []string{}}, Opts: w.Cfg.Opts}
	for i := range o.Opts {
		if o.Opts[i].Stocks == nil {
			o.Opts[i].Stocks = []absStock{}
		}
		if o.Opts[i].Cons == nil {
			o.Opts[i].Cons = []string{}
		}
	}
	if o.Pre.Inv == nil {
		o.Pre.Inv = []absStock{}
	}
	if o.Pre.Cons == nil {
		o.Pre.Cons = []string{}
	}
	for v := range traits.Consumable_Unit_name {
		o.Units = append(o.Units, traits.Consumable_Unit(v).String())
	}
	sort.Strings(o.Units)
	var m *vendingpb.Model
	o.Panic = hx.Catch(func() {
		var opts []resource.Option
		for _, co := range w.Cfg.Opts {
			switch co.Kind {
			case "stock":
				for _, s := range co.Stocks {
					if co.Via == "option" {
						opts = append(opts, vendingpb.WithInventoryOption(resource.WithInitialRecord(s.Name, concStock(s))))
					}
				}
				if co.Via != "option" {
					var ss []*traits.Consumable_Stock
					for _, s := range co.Stocks {
						ss = append(ss, concStock(s))
					}
					opts = append(opts, vendingpb.WithInitialStock(ss...))
				}
			case "cons":
				var cs []*traits.Consumable
				for _, c := range co.Cons {
					cs = append(cs, &traits.Consumable{Name: c})
				}
				if co.Via == "option" {
					for _, c := range cs {
						opts = append(opts, vendingpb.WithConsumablesOption(resource.WithInitialRecord(c.Name, c)))
					}
				} else {
					opts = append(opts, vendingpb.WithInitialConsumable(cs...))
				}
			case "clock":
				opts = append(opts, resource.WithClock(scriptedClock()))
			default:
				hx.Fatal("vending: unknown option kind %q", co.Kind)
			}
		}
		m = vendingpb.NewModel(opts...)
	})
	if m != nil {
		o.Post, o.RPanic = vendRead(m)
		if o.RPanic == "" {
			inv, _ := pullSeed(func(ctx context.Context) <-chan vendingpb.InventoryChange { return m.PullInventory(ctx) }, len(o.Post.Inv))
			for _, ch := range inv {
				o.Seed.Inv = append(o.Seed.Inv, absStockOf(ch.NewValue))
			}
			sort.Slice(o.Seed.Inv, func(i, j int) bool { return o.Seed.Inv[i].Name < o.Seed.Inv[j].Name })
			cons, _ := pullSeed(func(ctx context.Context) <-chan vendingpb.ConsumablesChange { return m.PullConsumables(ctx) }, len(o.Post.Cons))
			for _, ch := range cons {
				o.Seed.Cons = append(o.Seed.Cons, ch.NewValue.GetName())
			}
			sort.Strings(o.Seed.Cons)
		}
	}
	out.Write(o)
	if m == nil || o.RPanic != "" {
		return // nothing (readable) to walk on
	}
	for i, op := range w.Ops {
		o := vendObs{Model: "vending", Walk: w.N, Step: i + 1, Op: op.Op, Name: op.Name, Q: op.Q,
			Unit2: op.Unit2, Stock: op.Stock, Ret: optStockOf(nil), Err: "OK", Finite: true, Units: []string{}, Opts: []vendOpt{},
			Seed: vendState{Inv: []absStock{}, Cons: []string{}}}
		o.Pre, o.RPanic = vendRead(m)
		if o.RPanic != "" {
			o.Post = o.Pre
			out.Write(o)
			return
		}
		q := &traits.Consumable_Quantity{Unit: unitOf(op.Q.Unit), Amount: float32(float64(op.Q.M) / 1000)}
		o.Panic = hx.Catch(func() {
			switch op.Op {
			case "Dispense":
				s, err := m.DispenseInstantly(op.Name, q)
				o.Ret, o.Err = optStockOf(s), hx.Code(err)
			case "CreateStock":
				s, err := m.CreateStock(concStock(op.Stock))
				o.Ret, o.Err = optStockOf(s), hx.Code(err)
			case "DeleteStock":
				s, err := m.DeleteStock(op.Name)
				o.Ret, o.Err = optStockOf(s), hx.Code(err)
			case "Convert":
				v := float64(op.Q.M) / 1000
				r1, err := unitpb.Convert(v, q.Unit, unitOf(op.Unit2))
				o.Err = hx.Code(err)
				if err == nil {
					o.Fwd = milli(r1)
					r2, err2 := unitpb.Convert(r1, unitOf(op.Unit2), q.Unit)
					if err2 != nil {
						o.Err = "back:" + hx.Code(err2)
					}
					o.Back = milli(r2)
					o.Finite = !math.IsNaN(r1) && !math.IsInf(r1, 0) && !math.IsNaN(r2) && !math.IsInf(r2, 0)
				}
			default:
				hx.Fatal("vending: unknown op %q", op.Op)
			}
		})
		o.Post, o.RPanic = vendRead(m)
		out.Write(o)
	}
}
