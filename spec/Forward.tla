------------------------------- MODULE Forward -------------------------------
(***************************************************************************)
(* C12, forwarding: what a generated router does with one request.         *)
(*                                                                         *)
(* A *script* s fixes the world of one call: the clients added to the      *)
(* router (s.reg), the names the fallback knows (s.fb) and the factory can  *)
(* create (s.fac), the name in the caller's request, whether the           *)
(* default-name interceptor sits in front of the router, and what the      *)
(* child client answers: header, k messages, trailer, a status at any      *)
(* position (errAt: -1 none, -2 the call itself fails, -3 the header       *)
(* cannot be read, i >= 0 after i messages) and at which point the caller   *)
(* stops accepting (cf: -1 never, 0 the header, j the j-th message).       *)
(*                                                                         *)
(* An *observation* o is what the harness logs for one invocation of one   *)
(* method of one generated router (fields: see harness/cmd/routerx).       *)
(* Fails(o) is the set of clauses of the property o falsifies.             *)
(*                                                                         *)
(* Three uses:                                                             *)
(*   MC    (ForwardMC.cfg)    the router's unary forwarder and server-     *)
(*         stream pump written as a step machine (resolve, open, header,   *)
(*         recv/send loop, finish); TLC checks for every script that the   *)
(*         machine's final observation satisfies Fails = {} and that the   *)
(*         header precedes the messages, the messages are a prefix of the  *)
(*         child's, at most one child is called.                           *)
(*   Gen   (ForwardGen.cfg)   random scripts printed as CASE lines.        *)
(*   Trace (ForwardTrace.tla) Fails evaluated on what the real routers did.*)
(***************************************************************************)
EXTENDS Integers, Sequences, FiniteSets, TLC, Json

CONSTANTS NCases,   \* Gen: number of random scripts
          MaxK      \* MC: messages per stream 0..MaxK

VARIABLES s, stream, pc, i, o
vars == <<s, stream, pc, i, o>>

----------------------------------------------------------------------------
(* Name resolution (sequential reading of Router.tla's Get)               *)
Range(q) == { q[j] : j \in 1..Len(q) }
Has(tbl, n) == \E j \in 1..Len(tbl) : tbl[j].n = n
Lk(tbl, n) == tbl[CHOOSE j \in 1..Len(tbl) : tbl[j].n = n].c

\* the name the router sees: the interceptor fills in only an empty name
EffName(sc) == IF sc.icpt /\ sc.name = "" THEN sc.dflt ELSE sc.name

\* c = the client the request must reach (0: none); fb / fac = the names the fallback and the
\* factory are asked for (registry first, then the fallback, then the factory: doc of
\* router.WithFallback); made = the factory's client is remembered
Route(sc, reg) ==
  LET n == EffName(sc)
      askFb == IF sc.hasfb THEN <<n>> ELSE <<>>
  IN IF Has(reg, n) THEN [c |-> Lk(reg, n), fb |-> <<>>, fac |-> <<>>, made |-> FALSE]
     ELSE IF sc.hasfb /\ Has(sc.fb, n) THEN [c |-> Lk(sc.fb, n), fb |-> askFb, fac |-> <<>>, made |-> FALSE]
     ELSE IF sc.hasfac /\ Has(sc.fac, n) THEN [c |-> Lk(sc.fac, n), fb |-> askFb, fac |-> <<n>>, made |-> TRUE]
     ELSE [c |-> 0, fb |-> askFb, fac |-> IF sc.hasfac THEN <<n>> ELSE <<>>, made |-> FALSE]

\* messages the child yields before it ends
NMsgs(sc) == IF sc.errAt >= 0 THEN sc.errAt ELSE sc.k
\* the caller's refusal happens before the child's stream ends
CallerFails(sc) == sc.cf = 0 \/ (sc.cf >= 1 /\ sc.cf <= NMsgs(sc))
OneTo(n) == [j \in 1..n |-> j]
If(b, name) == IF b THEN {} ELSE {name}

----------------------------------------------------------------------------
(* The property, clause by clause, on one observation                     *)
ReachFails(ob, r) ==
  LET sc == ob.s IN
  IF r.c = 0
  THEN If(ob.code = "NotFound", "no-client:not-NotFound")
       \cup If(ob.calls = <<>>, "no-client:a-client-was-touched")
       \cup If(ob.msgs = <<>>, "no-client:response-delivered")
  ELSE If(Len(ob.calls) >= 1, "request-not-forwarded")
       \cup If(Len(ob.calls) <= 1, "request-forwarded-more-than-once")
       \cup (IF Len(ob.calls) = 0 THEN {} ELSE
             LET cl == ob.calls[1] IN
             If(cl.c = r.c, "request-reached-wrong-client")
             \cup If(cl.m = ob.wantm, "request-reached-wrong-method")
             \cup (IF ~cl.seen THEN {} ELSE
                   If(cl.reqeq, "request-altered")
                   \cup If(cl.nsend = 1, "request-sent-more-than-once")
                   \cup If(cl.n = EffName(sc),
                           IF ~sc.icpt THEN "request-name-altered"
                           ELSE IF sc.name = "" THEN "default-name-not-filled-in"
                           ELSE "default-name-replaced-a-given-name")))

RegistryFails(ob, r) ==
  If(ob.fbcalls = r.fb, "fallback-calls")
  \cup If(ob.faccalls = r.fac, IF Len(ob.faccalls) > Len(r.fac) THEN "factory-called-needlessly" ELSE "factory-calls")
  \cup If(Range(ob.post) = Range(ob.reg) \cup (IF r.made THEN {[n |-> EffName(ob.s), c |-> r.c]} ELSE {}),
          "registry-after-call")

\* (the property speaks of the *stream* header and trailer; nothing is asserted about unary metadata)
UnaryFails(ob) ==
  LET sc == ob.s IN
  IF sc.errAt # -1
  THEN If(ob.code = sc.code, "status-code") \cup If(ob.msg = sc.msg, "status-message")
       \cup If(ob.msgs = <<>>, "response-with-error")
  ELSE If(ob.code = "OK", "status-code") \cup If(ob.msgs = <<1>>, "response-altered")

FirstIdx(q, S) == IF \E j \in 1..Len(q) : q[j] \in S THEN CHOOSE j \in 1..Len(q) : q[j] \in S /\ \A l \in 1..(j-1) : q[l] \notin S
                  ELSE Len(q) + 1
StreamFails(ob) ==
  LET sc == ob.s  n == NMsgs(sc) IN
  IF sc.errAt \in {-2, -3}
  THEN \* the child never produced a stream / a header: only its status is settled by the text
       If(ob.code = sc.code, "status-code") \cup If(ob.msg = sc.msg, "status-message")
       \cup If(ob.msgs = <<>>, "messages")
  ELSE IF CallerFails(sc)
  THEN \* the caller went away: the text does not say what the router returns; what it did hand
       \* over must still be the child's messages, unaltered and in order
       If(Len(ob.msgs) <= n /\ ob.msgs = OneTo(Len(ob.msgs)), "messages-before-caller-failure")
  ELSE If(ob.code = (IF sc.errAt >= 0 THEN sc.code ELSE "OK"), "status-code")
       \cup If(ob.msg = (IF sc.errAt >= 0 THEN sc.msg ELSE ""), "status-message")
       \cup If(ob.msgs = OneTo(n), IF \E j \in 1..Len(ob.msgs) : ob.msgs[j] = 0 THEN "message-altered"
                                  ELSE IF Len(ob.msgs) # n THEN "message-count" ELSE "message-order")
       \cup If(ob.hdr = sc.hdr, "header")
       \* (a header there is to forward must be out before the first message, as gRPC demands)
       \cup If(sc.hdr = <<>> \/ FirstIdx(ob.ev, {"H", "h"}) < FirstIdx(ob.ev, {"M", "Mx"}), "header-after-message")
       \cup If(ob.trl = sc.trl, "trailer")

FwdFails(ob) ==
  LET r == Route(ob.s, ob.reg) IN
  If(ob.panic = "", "panic")
  \cup If(ob.code # "Unimplemented", "unrouted-unimplemented")
  \cup (IF ob.panic # "" \/ ob.code = "Unimplemented" THEN {} ELSE
        ReachFails(ob, r) \cup RegistryFails(ob, r)
        \cup (IF r.c = 0 \/ Len(ob.calls) # 1 THEN {} ELSE IF ob.stream THEN StreamFails(ob) ELSE UnaryFails(ob)))

\* the default-name interceptor on its own
IcptFails(ob) ==
  If(ob.panic = "", "icpt:panic")
  \cup (IF ob.panic # "" THEN {} ELSE
        If(ob.out = (IF ~ob.hasname THEN "" ELSE IF ob.in = "" THEN ob.dflt ELSE ob.in),
           IF ob.in = "" THEN "icpt:default-name-not-filled-in" ELSE "icpt:default-name-replaced-a-given-name")
        \cup If(ob.resteq, "icpt:other-fields-altered"))

Fails(ob) == IF ob.kind = "icpt" THEN IcptFails(ob) ELSE FwdFails(ob)

----------------------------------------------------------------------------
(* The worlds                                                              *)
RegFull   == << [n |-> "dev/A", c |-> 1], [n |-> "dev/B", c |-> 2], [n |-> "dflt", c |-> 3] >>
RegNoDflt == << [n |-> "dev/A", c |-> 1], [n |-> "dev/B", c |-> 2] >>
FbPlain   == << [n |-> "fb/F", c |-> 4] >>
FbOverlap == << [n |-> "fb/F", c |-> 4], [n |-> "dev/A", c |-> 6] >>     \* the registry wins
FacPlain  == << [n |-> "fac/G", c |-> 5] >>
FacOverlap == << [n |-> "fac/G", c |-> 5], [n |-> "fb/F", c |-> 7], [n |-> "dev/B", c |-> 8] >>  \* the fallback wins
ReqNames  == {"dev/A", "dev/B", "fb/F", "fac/G", "nope", ""}
\* names that are not empty but "look" empty or equal to another name: only "" is absent, every other
\* name is a name of its own and must reach the router / the handler byte for byte
BlankNames == {" ", "\t", "\n", "   ", " dev/A", "dev/A ", "DEV/a", "Dflt"}
\* ... two of them registered, so that "unaltered" is also seen as "reaches its own client"
RegBlank  == << [n |-> "dev/A", c |-> 1], [n |-> "dev/B", c |-> 2], [n |-> "dflt", c |-> 3],
                [n |-> " ", c |-> 9], [n |-> "dev/A ", c |-> 10] >>
H0 == <<>>
H1 == << [k |-> "h-one", v |-> <<"1">>] >>
H2 == << [k |-> "h-a", v |-> <<"x", "y">>], [k |-> "h-b", v |-> <<"">>] >>
T1 == << [k |-> "t-one", v |-> <<"9">>] >>
T2 == << [k |-> "t-a", v |-> <<"p">>], [k |-> "t-b", v |-> <<"q", "r">>] >>
Codes == {"Unavailable", "PermissionDenied", "Aborted", "InvalidArgument", "NotFound"}

Script(id, name, icpt, reg, hasfb, fb, hasfac, fac, refuse, typed, k, hdr, trl, errAt, code, cf, rep) ==
  [id |-> id, name |-> name, icpt |-> icpt, dflt |-> "dflt", reg |-> reg, hasfb |-> hasfb, fb |-> fb,
   hasfac |-> hasfac, fac |-> fac, refuse |-> refuse, typed |-> typed, k |-> k, hdr |-> hdr, trl |-> trl,
   errAt |-> errAt, code |-> code, msg |-> IF errAt = -1 THEN "" ELSE "child says " \o code, cf |-> cf, rep |-> rep,
   via |-> "conn", shapes |-> <<>>]
\* via: what the registered client is - "conn": a typed client over the recording connection; "wrap": a typed
\* client over wrap.ServerToClient around an in-process server (another instance of the same router, whose own
\* child is the recording connection), the usual child of a router.  shapes: how the child fills its j-th
\* message ("full": every field, long lists; "sparse": few fields, short lists; "empty"; anything else: random),
\* so that consecutive messages differ in which fields are set and in the lengths of their repeated fields.
\* The clause is the same for all: message j delivered to the caller equals message j the child sent.
Shaped(sc, via, shapes) == [sc EXCEPT !.via = via, !.shapes = shapes]

----------------------------------------------------------------------------
(* MC: the forwarder as a step machine                                     *)
MCScripts ==
  { Script(0, name, icpt, reg, hasfb, FbOverlap, hasfac, FacOverlap, "nil", FALSE, k, H1, T1, errAt, "Aborted", cf, 1) :
      name \in ReqNames \cup {" ", "dev/A ", "\t"}, icpt \in BOOLEAN, reg \in {RegFull, RegNoDflt, RegBlank}, hasfb \in BOOLEAN, hasfac \in BOOLEAN,
      k \in 0..MaxK, errAt \in -3..MaxK, cf \in -1..(MaxK + 1) }

Blank(sc, st) ==
  [kind |-> "fwd", stream |-> st, s |-> sc, reg |-> sc.reg, post |-> sc.reg, wantm |-> "M", calls |-> <<>>,
   fbcalls |-> <<>>, faccalls |-> <<>>, ev |-> <<>>, msgs |-> <<>>, hdr |-> <<>>, trl |-> <<>>,
   code |-> "OK", msg |-> "", panic |-> ""]

MCInit == /\ s \in { sc \in MCScripts : sc.errAt <= sc.k }
          /\ stream \in BOOLEAN
          /\ pc = "resolve" /\ i = 0
          /\ o = Blank(s, stream)

Done(code, msg) == /\ pc' = "done" /\ o' = [o EXCEPT !.code = code, !.msg = msg]

Resolve ==
  /\ pc = "resolve"
  /\ LET r == Route(s, o.reg)
         o1 == [o EXCEPT !.fbcalls = r.fb, !.faccalls = r.fac,
                         !.post = IF r.made THEN Append(o.reg, [n |-> EffName(s), c |-> r.c]) ELSE o.reg]
     IN IF r.c = 0
        THEN /\ pc' = "done" /\ o' = [o1 EXCEPT !.code = "NotFound", !.msg = EffName(s)]
        ELSE /\ pc' = "open"
             /\ o' = [o1 EXCEPT !.calls = << [c |-> r.c, m |-> "M", seen |-> FALSE, reqeq |-> FALSE,
                                             n |-> "", nsend |-> 0] >>]
  /\ UNCHANGED <<s, stream, i>>

\* issue the request to the child
Open ==
  /\ pc = "open"
  /\ LET sent == [o EXCEPT !.calls[1].seen = TRUE, !.calls[1].reqeq = TRUE, !.calls[1].n = EffName(s),
                           !.calls[1].nsend = 1] IN
     IF ~stream
     THEN /\ pc' = "done"
          /\ o' = IF s.errAt # -1 THEN [sent EXCEPT !.code = s.code, !.msg = s.msg]
                  ELSE [sent EXCEPT !.msgs = <<1>>]
     ELSE IF s.errAt = -2 THEN /\ pc' = "done" /\ o' = [o EXCEPT !.code = s.code, !.msg = s.msg]
     ELSE /\ pc' = "header" /\ o' = sent
  /\ UNCHANGED <<s, stream, i>>

Header ==
  /\ pc = "header"
  /\ IF s.errAt = -3 THEN Done(s.code, s.msg)
     ELSE IF s.cf = 0 THEN /\ pc' = "done"
                           /\ o' = [o EXCEPT !.ev = Append(@, "Hx"), !.code = "Unavailable", !.msg = "caller went away"]
     ELSE /\ pc' = "recv" /\ o' = [o EXCEPT !.ev = Append(@, "H"), !.hdr = s.hdr]
  /\ UNCHANGED <<s, stream, i>>

Recv ==
  /\ pc = "recv"
  /\ IF i = NMsgs(s) THEN pc' = "finish" /\ i' = i ELSE pc' = "send" /\ i' = i + 1
  /\ UNCHANGED <<s, stream, o>>

Send ==
  /\ pc = "send"
  /\ IF s.cf = i
     THEN /\ pc' = "done"
          /\ o' = [o EXCEPT !.ev = Append(@, "Mx"), !.msgs = Append(@, i), !.code = "Unavailable", !.msg = "caller went away"]
     ELSE /\ pc' = "recv" /\ o' = [o EXCEPT !.ev = Append(@, "M"), !.msgs = Append(@, i)]
  /\ UNCHANGED <<s, stream, i>>

Finish ==
  /\ pc = "finish"
  /\ pc' = "done"
  /\ o' = [o EXCEPT !.ev = Append(@, "T"), !.trl = s.trl,
                    !.code = IF s.errAt >= 0 THEN s.code ELSE "OK", !.msg = IF s.errAt >= 0 THEN s.msg ELSE ""]
  /\ UNCHANGED <<s, stream, i>>

MCNext == Resolve \/ Open \/ Header \/ Recv \/ Send \/ Finish \/ (pc = "done" /\ UNCHANGED vars)

\* the machine's final observation satisfies every clause of the property
FinalObservationConforms == pc = "done" => Fails(o) = {}
\* on the way: at most one child, messages a prefix of the child's, header first
AtMostOneChild == Len(o.calls) <= 1
MessagesArePrefix == stream => (o.msgs = OneTo(Len(o.msgs)) /\ Len(o.msgs) <= NMsgs(s))
HeaderFirst == (stream /\ o.msgs # <<>>) => o.ev[1] = "H"
NotFoundTouchesNothing == (pc = "done" /\ Route(s, s.reg).c = 0) => (o.calls = <<>> /\ o.code = "NotFound")

----------------------------------------------------------------------------
(* Gen: random scripts                                                     *)
R(S) == RandomElement(S)
Flip(z, pct) == RandomElement(1..100) <= pct
\* weighted choice: sets would merge repeated elements
W(q) == q[RandomElement(1..Len(q))]
RandScript(z) ==
  LET k == R(0..3)
      errAt == IF Flip(z, 55) THEN -1 ELSE R({-2, -3} \cup 0..k)
      cf == IF Flip(z, 25) THEN R(0..(k + 1)) ELSE -1
      hasfb == Flip(z, 50)  hasfac == Flip(z, 50)
      blank == Flip(z, 20)
  IN Script(z, IF blank THEN R(BlankNames)
               ELSE W(<<"dev/A", "dev/A", "dev/A", "dev/B", "dev/B", "fb/F", "fb/F", "fac/G", "fac/G", "nope", "", "">>),
            IF blank THEN Flip(z, 70) ELSE Flip(z, 40),
            IF blank /\ Flip(z, 50) THEN RegBlank ELSE IF Flip(z, 75) THEN RegFull ELSE RegNoDflt,
            hasfb, IF hasfb THEN (IF Flip(z, 50) THEN FbPlain ELSE FbOverlap) ELSE <<>>,
            hasfac, IF hasfac THEN (IF Flip(z, 50) THEN FacPlain ELSE FacOverlap) ELSE <<>>,
            R({"nil", "err"}), Flip(z, 50), k, R({H0, H1, H2}), R({H0, T1, T2}), errAt, R(Codes), cf, W(<<1, 1, 2>>))
\* (a wrapped child runs in its own goroutine: it is only used when the caller stays to the end)
RandShaped(z) ==
  LET sc == RandScript(z) IN
  Shaped(sc, IF sc.cf = -1 /\ Flip(z, 40) THEN "wrap" ELSE "conn",
         [j \in 1..4 |-> W(<<"full", "sparse", "empty", "rand", "rand">>)])

\* a fixed core so that every method of every router meets every kind of outcome whatever the seed
CoreScripts ==
  { Script(0, "dev/A", FALSE, RegFull, FALSE, <<>>, FALSE, <<>>, "nil", FALSE, 2, H2, T2, -1, "Aborted", -1, 1),
    Script(0, "dev/B", FALSE, RegFull, TRUE, FbOverlap, TRUE, FacOverlap, "nil", TRUE, 3, H1, T1, 1, "Aborted", -1, 1),
    Script(0, "nope", FALSE, RegFull, FALSE, <<>>, FALSE, <<>>, "nil", FALSE, 1, H1, T1, -1, "Aborted", -1, 1),
    Script(0, "nope", TRUE, RegFull, TRUE, FbPlain, TRUE, FacPlain, "err", TRUE, 1, H1, T1, -1, "Aborted", -1, 1),
    Script(0, "", TRUE, RegFull, FALSE, <<>>, FALSE, <<>>, "nil", FALSE, 1, H0, H0, -1, "Aborted", -1, 1),
    Script(0, "", FALSE, RegFull, FALSE, <<>>, FALSE, <<>>, "nil", FALSE, 1, H1, T1, -1, "Aborted", -1, 1),
    Script(0, "fb/F", FALSE, RegNoDflt, TRUE, FbPlain, TRUE, FacOverlap, "nil", FALSE, 0, H1, T2, 0, "Unavailable", -1, 2),
    Script(0, "fac/G", FALSE, RegNoDflt, FALSE, <<>>, TRUE, FacPlain, "nil", TRUE, 2, H1, T1, -1, "Aborted", -1, 2),
    Script(0, "fac/G", TRUE, RegFull, TRUE, FbPlain, TRUE, FacPlain, "err", FALSE, 1, H2, T1, -2, "PermissionDenied", -1, 2),
    Script(0, "dev/A", FALSE, RegFull, FALSE, <<>>, FALSE, <<>>, "nil", FALSE, 3, H1, T1, -1, "Aborted", 2, 1),
    Script(0, "dev/A", TRUE, RegFull, FALSE, <<>>, FALSE, <<>>, "nil", FALSE, 2, H1, T1, -3, "InvalidArgument", -1, 1) }

\* ... and every look-empty name behind the interceptor, on every method, whatever the seed
CoreBlank ==
  { Script(0, n, TRUE, IF n \in {" ", "\t", "dev/A "} THEN RegBlank ELSE RegFull, FALSE, <<>>, FALSE, <<>>, "nil", FALSE,
           1, H1, T1, -1, "Aborted", -1, 1) : n \in BlankNames }

\* ... and streams of different consecutive messages (a full one, a sparser one, an empty one, ...) from both
\* kinds of child
Decreasing == <<"full", "sparse", "empty", "sparse">>
CoreShaped ==
  { Shaped(Script(0, "dev/A", FALSE, RegFull, FALSE, <<>>, FALSE, <<>>, "nil", FALSE, 4, H2, T2, -1, "Aborted", -1, 1), via, Decreasing) :
      via \in {"conn", "wrap"} }
  \cup { Shaped(Script(0, "dev/B", TRUE, RegFull, FALSE, <<>>, FALSE, <<>>, "nil", FALSE, 3, H1, T1, 2, "Aborted", -1, 1), "wrap",
                 <<"sparse", "full", "empty", "full">>),
          Shaped(Script(0, "fac/G", FALSE, RegNoDflt, FALSE, <<>>, TRUE, FacPlain, "nil", TRUE, 3, H1, T2, -1, "Aborted", -1, 2), "wrap",
                 <<"full", "empty", "full", "empty">>),
          Shaped(Script(0, "fb/F", FALSE, RegFull, TRUE, FbPlain, FALSE, <<>>, "nil", FALSE, 2, H0, H0, -2, "Unavailable", -1, 1), "wrap",
                 Decreasing),
          Shaped(Script(0, "nope", FALSE, RegFull, FALSE, <<>>, FALSE, <<>>, "nil", FALSE, 2, H1, T1, -1, "Aborted", -1, 1), "wrap",
                 Decreasing) }

GenInit == /\ s \in CoreScripts \cup CoreBlank \cup CoreShaped \cup { RandShaped(z) : z \in 1..NCases }
           /\ stream = FALSE /\ pc = "gen" /\ i = 0 /\ o = 0
GenNext == UNCHANGED vars
EmitCase == PrintT("CASE " \o ToJson(s))
=============================================================================
