"""C02 / C03 share spec/ResourceConc.tla, the forced-schedule harness (cmd/conc) and spec/ConcTrace.tla."""
import random

import vf


def par(jobs, width=6):
    """Run independent TLC jobs side by side (each is its own JVM in its own scratch dir); results in order."""
    from concurrent.futures import ThreadPoolExecutor
    with ThreadPoolExecutor(max_workers=width) as ex:
        futs = [ex.submit(j) for j in jobs]
        return [f.result() for f in futs]


def gen(ctx, cfg, res, simulate=None, limit=None, timeout=900, equiv="none"):
    r = ctx.tlc("ConcMC", cfg, workers=1 if simulate else min(vf.NCPU, 8), timeout=timeout,
                simulate=simulate, extra=["-depth", "80"] if simulate else None)
    cases = r.cases()
    for c in cases:
        c["res"] = res
        c["equiv"] = equiv
    # distinct schedules only (simulation may repeat)
    seen, out = set(), []
    for c in cases:
        k = repr((c["init"], c["progs"], c["kinds"], c["sched"]))
        if k not in seen:
            seen.add(k)
            out.append(c)
    if limit and len(out) > limit:
        rnd = random.Random(ctx.seed)
        out = rnd.sample(out, limit)
    return out


def attacks(ctx, cfg, res, key, limit, simulate=None, equiv="none"):
    """Schedules of a named-deviation variant in which the specification itself ends in a bad state
    (expect[key] is false): deterministic attacks on the property.  On code that follows the repaired
    design they cannot be followed (drift) and the run is judged anyway."""
    cs = [c for c in gen(ctx, cfg, res, simulate=simulate, timeout=1800, equiv=equiv) if not c["expect"][key]]
    rnd = random.Random(ctx.seed + 5)
    if len(cs) > limit:
        cs = rnd.sample(cs, limit)
    for c in cs:
        c["attack"] = True
    return cs


def run_and_check(ctx, prop, cases, label):
    for n, c in enumerate(cases):
        c["n"] = n + 1
    # the runs are independent: several harness processes side by side (forced schedules mostly wait on gates)
    import subprocess
    parts = 4 if len(cases) >= 200 else 1
    binary = ctx.harness(cmd="conc")
    procs, outs = [], []
    for i in range(parts):
        cp = ctx.write_ndjson("cases-%s-%d.ndjson" % (label, i), cases[i::parts])
        op = ctx.path("obs-%s-%d.ndjson" % (label, i))
        outs.append(op)
        env = dict(vf.GOENV, VERIF_SEED=str(ctx.seed), VERIF_TIER=ctx.tier, VERIF_CURRENT=ctx.path("current-%s-%d.json" % (label, i)))
        procs.append(subprocess.Popen([binary, "-cases", cp, "-out", op], cwd=ctx.scratch, env=env,
                                      stdout=subprocess.PIPE, stderr=subprocess.STDOUT, text=True))
    for p in procs:
        try:
            out, _ = p.communicate(timeout=3000)
        except subprocess.TimeoutExpired:
            for q in procs:
                q.kill()
            raise vf.Inconclusive("conc harness timed out on " + label)
        if p.returncode != 0:
            raise vf.Inconclusive("conc harness failed rc=%d on %s:\n%s" % (p.returncode, label, out[-3000:]))
    obs = []
    for op in outs:
        obs += ctx.read_ndjson(op)
    obs.sort(key=lambda o: o["n"])
    opath = ctx.write_ndjson("obs-%s.ndjson" % label, obs)
    if not obs:
        raise vf.Inconclusive("conc harness produced nothing for " + label)
    problems = [o for o in obs if o["problem"]]
    if len(obs) < len(cases):
        ctx.cov["notes"].append({"harness_stopped_early_after_many_divergent_runs": len(cases) - len(obs)})
    tr = ctx.tlc("ConcTrace", "ConcTrace.cfg", workers=1, files={"obs.ndjson": opath}, timeout=3000)
    if not any(l.startswith('"CHECKED %d"' % len(obs)) for l in tr.out.splitlines()):
        raise vf.Inconclusive("trace check did not cover all %d runs:\n%s" % (len(obs), tr.out[-3000:]))
    ctx.count(len(obs))
    ctx.cov["traces_validated_against_impl"] += len(obs) - len(problems)
    if problems:
        ctx.cov["notes"].append({"runs_not_completed": len(problems), "example": problems[0]["problem"]})
    drift = [o for o in obs if o.get("drift")]
    ctx.cov["schedules_followed_to_the_end"] = ctx.cov.get("schedules_followed_to_the_end", 0) + \
        len([o for o in obs if o["mode"] == "forced" and not o.get("drift") and not o["problem"]])
    if drift:
        # the real code left the specification's behaviour; the run was completed free-running and judged anyway
        ctx.cov["notes"].append({"model_drift_runs": len(drift), "example": drift[0]["drift"]})
    other = {}
    for b in tr.cases("BAD "):
        o = obs[b["line"] - 1]
        for clause in b["fails"]:
            p, _, name = clause.partition(":")
            if p != prop:
                other[clause] = other.get(clause, 0) + 1
                continue
            ops = "+".join(sorted(describe(c) for c in o["progs"]))
            sig = "%s/%s/%s/%s" % (prop, o["res"], name, ops)
            ctx.violation(sig, "%s run %d: clause '%s' false on the real code's run" % (o["mode"], o["n"], name), o)
    if other:
        ctx.cov["notes"].append({"clauses_of_other_properties_failing_here": other})
    if len(problems) > max(3, len(obs) // 50) and not ctx.violations:
        raise vf.Inconclusive("%d of %d runs could not be completed, e.g. %s" %
                              (len(problems), len(obs), problems[0]["problem"]))
    for o in obs:
        if o["problem"]:
            continue
        if len(o["commits"]) >= 2 or any(r["err"] not in ("OK",) for r in o["results"]):
            ctx.distinct((o["init"], o["progs"], o["kinds"], o["sched"], o["commits"], o["mode"]))
    for o in obs[:1] + obs[len(obs) // 2: len(obs) // 2 + 1]:
        ctx.sample({k: o[k] for k in ("mode", "res", "init", "progs", "kinds", "sched", "commits", "results", "recv", "final")})
    return obs


def describe(c):
    if c["op"] == "del":
        return "Delete" + ("+expected" if c["e"] != -2 else "") + ("+check" if c["chk"] else "")
    name = "Add" if c["xa"] and c["cia"] else ("Upsert" if c["cia"] else "Set")
    return name + ("+expected" if c["e"] != -2 else "") + ("+check" if c["chk"] else "") + ("+delta" if c["inc"] else "")
