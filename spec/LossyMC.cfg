SPECIFICATION Spec
CONSTANTS
  Ids = {1, 2}
  MaxSteps = 7
  Kind = "coll"
VIEW ViewNoHist
INVARIANTS FoldPreserved OldChain KindsMakeSense QueueIsPending Latest Bounded
CHECK_DEADLOCK FALSE
