package main

import (
	"context"
	"encoding/json"
	"sort"

	"github.com/smart-core-os/sc-api/go/traits"
	"github.com/smart-core-os/sc-golang/pkg/resource"
	"github.com/smart-core-os/sc-golang/pkg/trait"
	"github.com/smart-core-os/sc-golang/pkg/trait/parentpb"
	"github.com/smart-core-os/sc-golang/verifharness/hx"
)

// ---- Parent.tla: children as [name, traits] records in name order ----------

type absChild struct {
	Name   string   `json:"name"`
	Traits []string `json:"traits"`
}
type optChild struct {
	Has bool     `json:"has"`
	V   absChild `json:"v"`
}

type parentOp struct {
	Op     string   `json:"op"`
	Name   string   `json:"name"`
	Traits []string `json:"traits"`
}
type parentOpt struct {
	Kind     string     `json:"kind"` // children | clock
	Children []absChild `json:"children"`
	Via      string     `json:"via"` // children: WithInitialChildren ("model") or WithChildrenOption(resource.WithInitialRecord) ("resource")
}
type parentWalk struct {
	N   int `json:"n"`
	Cfg struct {
		Opts []parentOpt `json:"opts"`
		Init []absChild `json:"init"`
	} `json:"cfg"`
	Ops []parentOp `json:"ops"`
}
type parentObs struct {
	Model   string     `json:"model"`
	Walk    int        `json:"walk"`
	Step    int        `json:"step"`
	Op      string     `json:"op"`
	Name    string     `json:"name"`
	Traits  []string   `json:"traits"`
	Pre     []absChild `json:"pre"`
	Post    []absChild `json:"post"`
	Opts    []parentOpt `json:"opts"` // New: the option sequence
	Seed    []absChild `json:"seed"` // New: the children of the PullChildren seed, in name order
	Ret     optChild   `json:"ret"`
	Created bool       `json:"created"`
	Err     string     `json:"err"`
	Panic   string     `json:"panic"`
}

func absChildOf(c *traits.Child) absChild {
	a := absChild{Name: c.GetName(), Traits: []string{}}
	for _, t := range c.GetTraits() {
		a.Traits = append(a.Traits, t.GetName())
	}
	return a
}
func optChildOf(c *traits.Child) optChild {
	if c == nil {
		return optChild{V: absChild{Traits: []string{}}}
	}
	return optChild{Has: true, V: absChildOf(c)}
}
func concChild(a absChild) *traits.Child {
	c := &traits.Child{Name: a.Name}
	for _, t := range a.Traits {
		c.Traits = append(c.Traits, &traits.Trait{Name: t})
	}
	return c
}
func traitNames(ss []string) []trait.Name {
	res := make([]trait.Name, len(ss))
	for i, s := range ss {
		res[i] = trait.Name(s)
	}
	return res
}
func strs(ss []string) []string {
	if ss == nil {
		return []string{}
	}
	return ss
}

func parentState(m *parentpb.Model) []absChild {
	res := []absChild{}
	for _, c := range m.ListChildren() {
		res = append(res, absChildOf(c))
	}
	return res
}

func init() { register("parent", runParent) }

func runParent(raw json.RawMessage, out *hx.Out) {
	w := decode[parentWalk](raw)
	var m *parentpb.Model
	o := parentObs{Model: "parent", Walk: w.N, Op: "New", Traits: []string{}, Pre: w.Cfg.Init, Post: []absChild{},
		Ret: optChildOf(nil), Err: "OK", Opts: w.Cfg.Opts, Seed: []absChild{}}
	if o.Pre == nil {
		o.Pre = []absChild{}
	}
	for i := range o.Opts {
		if o.Opts[i].Children == nil {
			o.Opts[i].Children = []absChild{}
		}
	}
	o.Panic = hx.Catch(func() {
		var opts []resource.Option
		for _, co := range w.Cfg.Opts {
			switch co.Kind {
			case "children":
				var cs []*traits.Child
				for _, c := range co.Children {
					cs = append(cs, concChild(c))
				}
				if co.Via == "resource" {
					for _, c := range cs {
						opts = append(opts, parentpb.WithChildrenOption(resource.WithInitialRecord(c.Name, c)))
					}
				} else {
					opts = append(opts, parentpb.WithInitialChildren(cs...))
				}
			case "clock":
				opts = append(opts, resource.WithClock(scriptedClock()))
			default:
				hx.Fatal("parent: unknown option kind %q", co.Kind)
			}
		}
		m = parentpb.NewModel(opts...)
		o.Post = parentState(m)
		seed, _ := pullSeed(func(ctx context.Context) <-chan *traits.PullChildrenResponse_Change { return m.PullChildren(ctx) }, len(o.Post))
		for _, ch := range seed {
			o.Seed = append(o.Seed, absChildOf(ch.GetNewValue()))
		}
		sort.Slice(o.Seed, func(i, j int) bool { return o.Seed[i].Name < o.Seed[j].Name })
	})
	out.Write(o)
	if m == nil {
		return
	}
	for i, op := range w.Ops {
		o := parentObs{Model: "parent", Walk: w.N, Step: i + 1, Op: op.Op, Name: op.Name, Traits: strs(op.Traits),
			Ret: optChildOf(nil), Err: "OK", Post: []absChild{}, Opts: []parentOpt{}, Seed: []absChild{}}
		o.Pre = parentState(m)
		o.Panic = hx.Catch(func() {
			switch op.Op {
			case "AddChildTrait":
				c, created := m.AddChildTrait(op.Name, traitNames(op.Traits)...)
				o.Ret, o.Created = optChildOf(c), created
			case "RemoveChildTrait":
				o.Ret = optChildOf(m.RemoveChildTrait(op.Name, traitNames(op.Traits)...))
			case "AddChild":
				m.AddChild(concChild(absChild{Name: op.Name, Traits: op.Traits}))
			case "RemoveChildByName":
				c, err := m.RemoveChildByName(op.Name)
				o.Ret, o.Err = optChildOf(c), hx.Code(err)
			default:
				hx.Fatal("parent: unknown op %q", op.Op)
			}
		})
		o.Post = parentState(m)
		out.Write(o)
	}
}
