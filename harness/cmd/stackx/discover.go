package main

import (
	"sort"
	"strings"

	"google.golang.org/protobuf/reflect/protoreflect"
	"google.golang.org/protobuf/reflect/protoregistry"
)

// triple is one (Get, Update, Pull) group of RPCs of a service that expose the same resource message:
// the Get response, the Update response and a field of the Pull response's `changes` element have the
// same message type.  Ties are broken by the common method-name suffix (GetHail/UpdateHail/PullHail, not
// PullHails).
type triple struct {
	Service  string `json:"service"`
	Get      string `json:"get"`
	Update   string `json:"update"`
	Pull     string `json:"pull"`
	Resource string `json:"resource"`

	sd                           protoreflect.ServiceDescriptor
	get, update, pull            protoreflect.MethodDescriptor
	res                          protoreflect.MessageDescriptor
	updValue, updMask            protoreflect.FieldDescriptor // in the Update request
	getMask                      protoreflect.FieldDescriptor // in the Get request
	pullUpdatesOnly, pullMask    protoreflect.FieldDescriptor // in the Pull request
	changes, chgName, chgValue   protoreflect.FieldDescriptor // in the Pull response / its element
	getName, updName, pullName   protoreflect.FieldDescriptor
}

const fieldMaskName = "google.protobuf.FieldMask"

func fieldOfType(md protoreflect.MessageDescriptor, t protoreflect.FullName, prefer string) protoreflect.FieldDescriptor {
	var found protoreflect.FieldDescriptor
	for i := 0; i < md.Fields().Len(); i++ {
		fd := md.Fields().Get(i)
		if fd.Message() != nil && fd.Message().FullName() == t && !fd.IsList() && !fd.IsMap() {
			if string(fd.Name()) == prefer {
				return fd
			}
			if found == nil {
				found = fd
			}
		}
	}
	return found
}

// changeValueField returns (changes, value-field-in-element) if out looks like a Pull response for resource t.
func changeValueField(out protoreflect.MessageDescriptor, t protoreflect.FullName) (protoreflect.FieldDescriptor, protoreflect.FieldDescriptor) {
	ch := out.Fields().ByName("changes")
	if ch == nil || !ch.IsList() || ch.Message() == nil {
		return nil, nil
	}
	return ch, fieldOfType(ch.Message(), t, "")
}

func commonPrefixLen(a, b string) int {
	n := 0
	for n < len(a) && n < len(b) && a[n] == b[n] {
		n++
	}
	return n
}

// best picks the candidate whose suffix (after the verb) matches want best: exact, else longest common prefix.
func best(cands []protoreflect.MethodDescriptor, verb, want string) protoreflect.MethodDescriptor {
	var res protoreflect.MethodDescriptor
	bestScore := -1
	for _, c := range cands {
		suf := strings.TrimPrefix(string(c.Name()), verb)
		score := commonPrefixLen(suf, want)
		if suf == want {
			score = 1 << 20
		}
		if score > bestScore {
			bestScore, res = score, c
		}
	}
	return res
}

func discoverTriples() []*triple {
	var res []*triple
	protoregistry.GlobalFiles.RangeFiles(func(fd protoreflect.FileDescriptor) bool {
		for i := 0; i < fd.Services().Len(); i++ {
			sd := fd.Services().Get(i)
			for j := 0; j < sd.Methods().Len(); j++ {
				u := sd.Methods().Get(j)
				if u.IsStreamingClient() || u.IsStreamingServer() || !strings.HasPrefix(string(u.Name()), "Update") {
					continue
				}
				t := u.Output().FullName()
				if fieldOfType(u.Input(), t, "") == nil {
					continue // the update request does not carry the resource
				}
				suffix := strings.TrimPrefix(string(u.Name()), "Update")
				var gets, pulls []protoreflect.MethodDescriptor
				for k := 0; k < sd.Methods().Len(); k++ {
					m := sd.Methods().Get(k)
					switch {
					case !m.IsStreamingClient() && !m.IsStreamingServer() && strings.HasPrefix(string(m.Name()), "Get") && m.Output().FullName() == t:
						gets = append(gets, m)
					case !m.IsStreamingClient() && m.IsStreamingServer() && strings.HasPrefix(string(m.Name()), "Pull"):
						if _, v := changeValueField(m.Output(), t); v != nil {
							pulls = append(pulls, m)
						}
					}
				}
				if len(gets) == 0 || len(pulls) == 0 {
					continue
				}
				g, p := best(gets, "Get", suffix), best(pulls, "Pull", suffix)
				tr := &triple{Service: string(sd.FullName()), Get: string(g.Name()), Update: string(u.Name()), Pull: string(p.Name()),
					Resource: string(t), sd: sd, get: g, update: u, pull: p, res: u.Output()}
				tr.updValue = fieldOfType(u.Input(), t, "")
				tr.updMask = fieldOfType(u.Input(), fieldMaskName, "update_mask")
				tr.getMask = fieldOfType(g.Input(), fieldMaskName, "read_mask")
				tr.pullMask = fieldOfType(p.Input(), fieldMaskName, "read_mask")
				tr.pullUpdatesOnly = p.Input().Fields().ByName("updates_only")
				tr.changes, tr.chgValue = changeValueField(p.Output(), t)
				tr.chgName = tr.changes.Message().Fields().ByName("name")
				tr.getName = g.Input().Fields().ByName("name")
				tr.updName = u.Input().Fields().ByName("name")
				tr.pullName = p.Input().Fields().ByName("name")
				res = append(res, tr)
			}
		}
		return true
	})
	sort.Slice(res, func(i, j int) bool {
		if res[i].Service != res[j].Service {
			return res[i].Service < res[j].Service
		}
		return res[i].Update < res[j].Update
	})
	return res
}

func findTriple(all []*triple, service, update string) *triple {
	for _, t := range all {
		if t.Service == service && t.Update == update {
			return t
		}
	}
	return nil
}
