---------------------------- MODULE Masks ----------------------------
(***************************************************************************)
(* C05 / C06: update, writable and reset masks on writes; read-mask       *)
(* projection on reads.  Three uses:                                      *)
(*   MC   (MasksMC.cfg)   laws of the reference semantics of Msg.tla over  *)
(*                        an exhaustive small domain                      *)
(*   Gen  (MasksGen.cfg)  tuples printed as CASE lines for the harness     *)
(*   Trace(MasksTrace.cfg) the property predicates evaluated on what the   *)
(*                        real code returned for each tuple               *)
(***************************************************************************)
EXTENDS Msg, TLC, Json

CONSTANTS NCases,      \* Gen: number of random tuples
          Scope        \* MC: 1 = quick domain, 2 = thorough domain

VARIABLE c             \* the tuple under consideration

----------------------------------------------------------------------------
(* Generators                                                              *)
GI == 0..2  GS == 0..1  GO == -1..1
GN == { NoN,
        [p |-> TRUE, a |-> 0, cp |-> FALSE, ci |-> 0], [p |-> TRUE, a |-> 1, cp |-> FALSE, ci |-> 0],
        [p |-> TRUE, a |-> 1, cp |-> TRUE, ci |-> 0],  [p |-> TRUE, a |-> 0, cp |-> TRUE, ci |-> 2],
        [p |-> TRUE, a |-> 2, cp |-> TRUE, ci |-> 1] }
GF == { NoF, [p |-> TRUE, c |-> 0, d |-> 0], [p |-> TRUE, c |-> 1, d |-> 0], [p |-> TRUE, c |-> 1, d |-> 2] }
GR == { <<>>, <<1>>, <<2, 1>> }
GRM == { <<>>, <<[c |-> 1, d |-> 0]>>, <<[c |-> 1, d |-> 2], [c |-> 0, d |-> 0]>> }
GM == { NoM, [k1 |-> 1, k2 |-> 0], [k1 |-> 2, k2 |-> 1] }
GU == { NoU, [k |-> 1, ui |-> 0, una |-> 0], [k |-> 1, ui |-> 2, una |-> 0],
        [k |-> 2, ui |-> 0, una |-> 0], [k |-> 2, ui |-> 0, una |-> 1] }
G(name) == CASE name = "i" -> GI [] name = "s" -> GS [] name = "o" -> GO [] name = "n" -> GN
            [] name = "f" -> GF [] name = "r" -> GR [] name = "rm" -> GRM [] name = "m" -> GM [] name = "u" -> GU
FieldNames == {"i", "s", "o", "n", "f", "r", "rm", "m", "u"}
\* sparse messages: at most one / two populated fields
Msgs1 == UNION { { [Empty EXCEPT ![k] = v] : v \in G(k) } : k \in FieldNames }
\* (the parameter only defeats TLC's caching of constant-level definitions)
RandSparse(z) == LET k1 == RandomElement(FieldNames)  k2 == RandomElement(FieldNames) IN
              [[Empty EXCEPT ![k1] = RandomElement(G(k1))] EXCEPT ![k2] = RandomElement(G(k2))]
RandMsg(z) == [i |-> RandomElement(GI), s |-> RandomElement(GS), o |-> RandomElement(GO),
            n |-> RandomElement(GN), f |-> RandomElement(GF), r |-> RandomElement(GR),
            rm |-> RandomElement(GRM), m |-> RandomElement(GM), u |-> RandomElement(GU)]

Singles == { <<p>> : p \in ValidPaths }
Pairs   == { <<p, q>> : p \in ValidPaths, q \in ValidPaths }      \* duplicates, parent+child, siblings
Corrupt == { <<p>> : p \in InvalidPaths } \cup { <<<<"i">>, p>> : p \in InvalidPaths }
          \cup { <<p, <<"f">> >> : p \in InvalidPaths }
RandPathSeq(z) == LET k == RandomElement(0..3) IN [j \in 1..k |-> RandomElement(ValidPaths)]

WChoices == { NilMask, Mask(<<>>), Mask(<< <<"f","c">>, <<"f","d">> >>), Mask(<< <<"i">>, <<"n">> >>),
              Mask(<< <<"n","a">>, <<"r">>, <<"ui">>, <<"o">> >>), Mask(<< <<"n","c">>, <<"m">>, <<"un">>, <<"rm">>, <<"s">> >>) }
RChoices == { NilMask, Mask(<< <<"i">> >>), Mask(<< <<"n","c">> >>), Mask(<< <<"f">>, <<"r">>, <<"un","a">> >>) }

----------------------------------------------------------------------------
(* MC: laws of the reference semantics (the property, stated on the spec) *)
MCMasks == { NilMask } \cup { Mask(ps) : ps \in {<<>>} \cup Singles }
           \cup { Mask(ps) : ps \in { <<<<"n">>, <<"n","a">>>>, <<<<"f","c">>, <<"f","c">>>>, <<<<"i">>, <<"f">>>>,
                                      <<<<"n","c","i">>, <<"n","a">>>>, <<<<"ui">>, <<"un">>>>, <<<<"r">>, <<"m">>>> } }
           \cup (IF Scope >= 2 THEN { Mask(ps) : ps \in Pairs } ELSE {})
MCW == IF Scope >= 2 THEN WChoices ELSE { NilMask, Mask(<< <<"f","c">>, <<"f","d">> >>), Mask(<< <<"n","a">>, <<"r">>, <<"ui">>, <<"o">> >>) }
MCR == IF Scope >= 2 THEN RChoices ELSE { NilMask, Mask(<< <<"f">>, <<"r">>, <<"un","a">> >>) }

\* two stages so that TLC's workers share the enumeration: the (old, written)
\* pairs are the initial states, each is expanded with every (M, W, R)
MCInit == c \in [st : {0}, old : Msgs1, wr : Msgs1, M : {NilMask}, W : {NilMask}, R : {NilMask}]
MCNext == c.st = 0 /\ c' \in [st : {1}, old : {c.old}, wr : {c.wr}, M : MCMasks, W : MCW, R : MCR]

\* C05 on the reference: whenever the write must be accepted its result
\* satisfies frame, scalar assignment, reset and the empty-mask clause
LawWrite ==
  MustAccept(c.M, c.W) =>
    LET res == UpdateResult(c.old, c.wr, c.M, c.W, c.R) IN
      /\ Frame(c.old, res, c.M, c.W, c.R)
      /\ ScalarAssigned(res, c.wr, c.M, c.W, c.R)
      /\ ResetCleared(res, IF (~c.M.nil /\ c.M.paths = <<>>) \/ (~c.W.nil /\ c.W.paths = <<>>) THEN NilMask ELSE c.R)
      /\ (~c.M.nil /\ c.M.paths = <<>> => res = c.old)
      /\ res = Canon(res)
LawClasses == ~(MustAccept(c.M, c.W) /\ MustReject(c.M, c.W))
\* C06 on the reference: projection laws
LawProject ==
  LET x == c.old  K == PathSet(c.M)  K2 == PathSet(c.R) IN
    /\ MaskValid(c.M) =>
        /\ Project(Project(x, c.M), c.M) = Project(x, c.M)                       \* idempotent
        /\ Project(x, NilMask) = x /\ Project(x, Mask(<<>>)) = Empty
        /\ \A q \in LeafPaths : Covered(q, K) /\ ~c.M.nil => LeafVal(Project(x, c.M), q) = LeafVal(x, q)
        /\ \A q \in LeafPaths : ~Covered(q, K) /\ ~c.M.nil => LeafVal(Project(x, c.M), q) = LeafVal(Empty, q)
        /\ ProjectSet(ProjectSet(x, K \cup K2), K) = ProjectSet(x, K)            \* monotone
        /\ Project(x, c.M) = Canon(Project(x, c.M))
    /\ ProjectSet(x, {<<"n">>, <<"n","a">>}) = ProjectSet(x, {<<"n">>})           \* parent + child = parent
    /\ ProjectSet(x, {<<"f","c">>, <<"f","c">>}) = ProjectSet(x, {<<"f","c">>})

----------------------------------------------------------------------------
(* Gen: tuples for the harness.  Half of the update tuples use sparse      *)
(* messages (at most two populated fields), half dense random ones.       *)
GenUpd(k) ==
  LET dense == (k % 2 = 0)
      \* (every ninth tuple starts from nothing stored: the first write of a resource)
      old == IF k % 9 = 4 THEN Empty ELSE IF dense THEN RandMsg(k) ELSE RandSparse(k)
      \* (every thirteenth tuple writes the stored message again: "nothing changes" still applies the reset mask
      \*  and FieldMask append semantics)
      wr  == IF k % 13 = 5 THEN old ELSE IF dense THEN RandMsg(k) ELSE RandSparse(k)
      mk  == k % 7
      M   == CASE mk = 0 -> NilMask
               [] mk = 1 -> Mask(RandomElement(Singles))
               [] mk = 2 -> Mask(RandomElement(Pairs))
               [] mk = 3 -> Mask(RandPathSeq(k))
               [] mk = 4 -> Mask(RandomElement(Corrupt \cup {<<>>}))
               [] OTHER  -> Mask(RandomElement(Singles \cup Pairs))
      W   == RandomElement(WChoices)
      \* extra writable fields are also given when everything is writable already (they must not narrow it)
      W2  == IF k % 3 # 0 THEN NilMask ELSE Mask(<<RandomElement(ValidPaths)>>)
  IN [k |-> "upd", n |-> k, old |-> old, wr |-> wr, M |-> M, W |-> W, W2 |-> W2,
      allW |-> (k % 11 = 0), R |-> RandomElement(RChoices)]
GenProj(k) ==
  LET mk == k % 5
      mask == CASE mk = 0 -> Mask(RandomElement(Singles))
                [] mk = 1 -> Mask(RandomElement(Pairs))
                [] mk = 2 -> Mask(RandPathSeq(k))
                [] mk = 3 -> IF k % 2 = 0 THEN NilMask ELSE Mask(<<>>)
                [] OTHER  -> Mask(RandomElement(Corrupt))
  IN [k |-> "proj", n |-> k, msg |-> IF k % 2 = 0 THEN RandMsg(k) ELSE RandSparse(k), mask |-> mask]
\* every single-path mask on every sparse message: the exhaustive core
ExhaustiveProj == { [k |-> "proj", n |-> 0, msg |-> x, mask |-> Mask(ps)] : x \in Msgs1, ps \in Singles \cup Corrupt }

(* Field NAMES: paths are sequences of segments, so "covered by" is decided segment by segment -- never on the *)
(* dotted text, where one field's name can be the beginning of a sibling's.  A second, tiny schema whose names *)
(* are like that (sc-api's Occupancy: state / state_change_time[.seconds] / people_count), every mask pair.   *)
NamePaths == { <<"st">>, <<"stct">>, <<"stct", "s">>, <<"pc">> }
NameLeaves == { <<"st">>, <<"stct", "s">>, <<"pc">> }
RECURSIVE SetToSeqM(_)
SetToSeqM(S) == IF S = {} THEN <<>> ELSE LET x == CHOOSE y \in S : TRUE IN <<x>> \o SetToSeqM(S \ {x})
GenNames == { [k |-> "names", n |-> 0, M |-> Mask(SetToSeqM(m)), W |-> Mask(SetToSeqM(w))]
              : m \in (SUBSET NamePaths) \ {{}}, w \in SUBSET NamePaths }

GenInit == c \in { GenUpd(k) : k \in 1..NCases } \cup { GenProj(k) : k \in 1..NCases } \cup ExhaustiveProj \cup GenNames
GenNext == UNCHANGED c
EmitCase == PrintT("CASE " \o ToJson(c))

----------------------------------------------------------------------------
(* Trace: the verdict.  Each line of obs.ndjson is what the real code did  *)
(* with one tuple; Fails(t) is the set of property clauses it falsifies.  *)
Obs == ndJsonDeserialize("obs.ndjson")

SeqOf(x) == [k \in 1..Len(x) |-> x[k]]          \* JSON arrays arrive as tuples already
NormMask(m) == [nil |-> m.nil, paths |-> m.paths]

Normal(mask) == mask.nil \/ \A j, k \in 1..Len(mask.paths) : j # k => ~IsPrefixOf(mask.paths[j], mask.paths[k])
UpdFails(t) ==
  LET M == NormMask(t.M)  W == NormMask(t.W)  R == NormMask(t.R)
      accepted == t.err = "OK"
      validR == MaskValid(R)
  IN
  (IF t.panic # "" THEN {"panic"} ELSE {})
  \cup (IF MustReject(M, W) /\ t.err # "InvalidArgument" /\ t.panic = "" THEN {"bad-mask-accepted"} ELSE {})
  \* (a mask with duplicate or parent+child paths may be refused: the property only
  \*  constrains what is rejected "for naming unknown or read-only fields")
  \cup (IF MustAccept(M, W) /\ Normal(M) /\ validR /\ ~accepted /\ t.panic = "" THEN {"good-mask-rejected"} ELSE {})
  \cup (IF ~accepted /\ t.post # t.old THEN {"failed-write-changed-store"} ELSE {})
  \cup (IF accepted /\ t.panic = "" /\ validR THEN
          (IF ~Frame(t.old, t.post, M, W, R) THEN {"frame"} ELSE {})
          \cup (IF ~ScalarAssigned(t.post, t.wr, M, W, R) THEN {"scalar-assigned"} ELSE {})
          \cup (IF ~(~M.nil /\ M.paths = <<>>) /\ ~(~W.nil /\ W.paths = <<>>) /\ ~ResetCleared(t.post, R) THEN {"reset-not-cleared"} ELSE {})
          \cup (IF ~M.nil /\ M.paths = <<>> /\ t.post # t.old THEN {"empty-mask-changed"} ELSE {})
          \cup (IF t.res # t.post THEN {"returned-differs-from-stored"} ELSE {})
          \cup (IF MustAccept(M, W) /\ t.post # UpdateResult(t.old, t.wr, M, W, R) THEN {"differs-from-reference-merge"} ELSE {})
        ELSE {})

ProjFails(t) ==
  LET mask == NormMask(t.mask) IN
  (IF t.panic # "" THEN {"panic"} ELSE {})
  \cup (IF MaskValid(mask) /\ t.valid # "OK" THEN {"valid-mask-reported-invalid"} ELSE {})
  \cup (IF ~MaskValid(mask) /\ t.valid # "InvalidArgument" THEN {"invalid-mask-not-reported"} ELSE {})
  \cup (IF MaskValid(mask) /\ t.panic = "" /\ t.res # Project(t.msg, mask) THEN {"not-the-projection"} ELSE {})
  \cup (IF t.panic = "" /\ t.via # "filter" /\ t.post # t.msg THEN {"read-mutated-stored"} ELSE {})
  \* whatever an invalid path is taken to mean, it cannot select a field it does not even name:
  \* a populated field of the result has its top-level name in some path of the mask
  \* (for valid masks this follows from the projection clause)
  \cup (IF ~mask.nil /\ t.panic = ""
           /\ \E q \in LeafPaths : LeafVal(t.res, q) # LeafVal(Empty, q) /\ ~\E p \in PathSet(mask) : p # <<>> /\ p[1] = q[1]
        THEN {"unnamed-field-selected"} ELSE {})

\* old / post of a names observation: [st, stcts, pc] integers
NameVal(x, q) == IF q = <<"st">> THEN x.st ELSE IF q = <<"pc">> THEN x.pc ELSE x.stcts
NameFails(t) ==
  LET M == NormMask(t.M)  W == NormMask(t.W)  K == PathSet(M) IN
  (IF t.panic # "" THEN {"panic"} ELSE {})
  \cup (IF (\E p \in K : ClearlyReadOnly(p, W)) /\ t.err # "InvalidArgument" /\ t.panic = "" THEN {"bad-mask-accepted"} ELSE {})
  \cup (IF (\A p \in K : ClearlyWritable(p, W)) /\ t.err # "OK" /\ t.panic = "" THEN {"good-mask-rejected"} ELSE {})
  \cup (IF t.err # "OK" /\ t.post # t.old THEN {"failed-write-changed-store"} ELSE {})
  \cup (IF t.err = "OK" /\ \E q \in NameLeaves : ~InScope(q, M, W) /\ NameVal(t.post, q) # NameVal(t.old, q) THEN {"frame"} ELSE {})
  \* a mask is judged against the message type of the write at hand: these paths name nothing in the all-kinds message
  \cup (IF t.via = "updater" /\ t.panic = "" /\ t.crossErr # "InvalidArgument" THEN {"mask-of-another-type-accepted"} ELSE {})

\* reads over the same schema: exactly the leaves covered by the mask (segment-wise) survive
RNameFails(t) ==
  LET K == PathSet(NormMask(t.M)) IN
  (IF t.panic # "" THEN {"panic"} ELSE {})
  \cup (IF \E q \in NameLeaves : NameVal(t.post, q) # (IF Covered(q, K) THEN NameVal(t.old, q) ELSE 0)
        THEN {"not-the-projection"} ELSE {})

Fails(t) == IF t.k = "upd" THEN UpdFails(t) ELSE IF t.k = "names" THEN NameFails(t)
            ELSE IF t.k = "rnames" THEN RNameFails(t) ELSE ProjFails(t)
BadLines == { k \in 1..Len(Obs) : Fails(Obs[k]) # {} }
TraceInit == c = 0
TraceNext == UNCHANGED c
EmitBad == \A k \in BadLines : PrintT("BAD " \o ToJson([line |-> k, fails |-> Fails(Obs[k])]))
TraceChecked == EmitBad /\ PrintT("CHECKED " \o ToString(Len(Obs)))
=============================================================================
