\* Collection family with the rng under its own mutex: NoRace holds
SPECIFICATION Spec
CONSTANTS
  N = 2
  Family = "coll"
  RngGuard = "ownmutex"
  StreamGuard = "mutex"
  OldMutated = FALSE
  DefaultShared = "none"
  Mutant = "none"
INVARIANTS TypeOK NoRace
CHECK_DEADLOCK FALSE
