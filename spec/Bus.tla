---------------------------- MODULE Bus ----------------------------
(***************************************************************************)
(* C10: internal/minibus at the grain of its yield points.                *)
(*                                                                         *)
(* Listeners (l): created by Listen(ctx); a watcher goroutine waits for    *)
(* ctx.Done and then stops the listener (exclusive lock on l.m, close the  *)
(* channel, forget it).  Senders (s): Send copies the listener list and,   *)
(* for each listener in order, takes a shared lock on l.m and selects      *)
(* between handing the event to the receiver, noticing the listener's      *)
(* context is cancelled (skipped, bus garbage-collected afterwards) and    *)
(* noticing its own context is done (the whole Send is abandoned).         *)
(* Consumers receive when the schedule says so (Recv is the rendezvous).   *)
(*                                                                         *)
(* Go's RWMutex: a pending exclusive lock blocks new shared lockers.       *)
(***************************************************************************)
EXTENDS Integers, Sequences, FiniteSets, TLC, Json

CONSTANTS Listeners, Senders,
          MaxSends,          \* events per sender
          SendCtxMayEnd,     \* TRUE: a sender's own context may end while it waits (Value.Set's timeout)
          ListenerLock,      \* TRUE = the code: l.m makes stop() exclusive with senders inside l.send
          Eager,             \* TRUE (Gen): steps the code takes by itself are taken as soon as they are enabled
          MaxCancels         \* Gen: at most this many listeners are cancelled (the others stay live to the end)

VARIABLES
  reg,       \* sequence of listeners registered on the bus
  lpc,       \* per listener: "new" | "listening" (Listen called, watcher running)
  ctx,       \* per listener: "live" | "cancelled"
  wpc,       \* per listener's watcher: "wait" | "locking" | "done"
  closed,    \* per listener: channel closed (and forgotten)
  inside,    \* per listener: senders holding the shared lock (inside l.send)
  spc,       \* per sender: "idle" | "each" | "inside" | "collect" | "done"
  targets,   \* per sender: listeners still to be served in the current Send
  needGc,    \* per sender
  count,     \* per sender: events sent so far (the event being sent is <<s, count[s]>>)
  sctx,      \* per sender: "live" | "done" -- its own context
  got,       \* per listener: sequence of events its consumer received
  hist,      \* history: for each event, the listeners that were live and registered during the whole send
  sched      \* history: the schedule
vars == <<reg, lpc, ctx, wpc, closed, inside, spc, targets, needGc, count, sctx, got, hist, sched>>

Step(a, p, q) == sched' = Append(sched, [a |-> a, p |-> p, q |-> q])
None == 0

Init == /\ reg = <<>> /\ lpc = [l \in Listeners |-> "new"] /\ ctx = [l \in Listeners |-> "live"]
        /\ wpc = [l \in Listeners |-> "wait"] /\ closed = [l \in Listeners |-> FALSE]
        /\ inside = [l \in Listeners |-> {}]
        /\ spc = [s \in Senders |-> "idle"] /\ targets = [s \in Senders |-> <<>>]
        /\ needGc = [s \in Senders |-> FALSE] /\ count = [s \in Senders |-> 0]
        /\ sctx = [s \in Senders |-> "live"]
        /\ got = [l \in Listeners |-> <<>>] /\ hist = <<>> /\ sched = <<>>

\* Listen(ctx): the listener is appended to the bus (its watcher already runs)
Listen(l) ==
  /\ lpc[l] = "new"
  /\ Step("Listen", l, None)
  /\ lpc' = [lpc EXCEPT ![l] = "listening"]
  /\ reg' = Append(reg, l)
  /\ UNCHANGED <<ctx, wpc, closed, inside, spc, targets, needGc, count, sctx, got, hist>>

\* the subscriber's context is cancelled (possibly before Listen is even called)
Cancel(l) ==
  /\ ctx[l] = "live"
  /\ (Eager => Cardinality({ x \in Listeners : ctx[x] = "cancelled" }) < MaxCancels)
  /\ Step("Cancel", l, None)
  /\ ctx' = [ctx EXCEPT ![l] = "cancelled"]
  \* a send that the listener has not been live for entirely owes it nothing
  /\ hist' = [k \in 1..Len(hist) |-> IF hist[k].open THEN [hist[k] EXCEPT !.live = hist[k].live \ {l}] ELSE hist[k]]
  /\ UNCHANGED <<reg, lpc, wpc, closed, inside, spc, targets, needGc, count, sctx, got>>

\* the watcher wakes up and asks for the exclusive lock ...
StopLock(l) ==
  /\ lpc[l] = "listening" /\ ctx[l] = "cancelled" /\ wpc[l] = "wait"
  /\ Step("StopLock", l, None)
  /\ wpc' = [wpc EXCEPT ![l] = "locking"]
  /\ UNCHANGED <<reg, lpc, ctx, closed, inside, spc, targets, needGc, count, sctx, got, hist>>
\* ... gets it once no sender is inside, and closes the channel
StopClose(l) ==
  /\ wpc[l] = "locking" /\ (ListenerLock => inside[l] = {})
  /\ Step("StopClose", l, None)
  /\ wpc' = [wpc EXCEPT ![l] = "done"]
  /\ closed' = [closed EXCEPT ![l] = TRUE]
  /\ UNCHANGED <<reg, lpc, ctx, inside, spc, targets, needGc, count, sctx, got, hist>>

\* Send: copy the listener list
SendSnap(s) ==
  /\ spc[s] = "idle" /\ count[s] < MaxSends
  /\ Step("SendSnap", s, None)
  /\ count' = [count EXCEPT ![s] = count[s] + 1]
  /\ targets' = [targets EXCEPT ![s] = reg]
  /\ needGc' = [needGc EXCEPT ![s] = FALSE]
  /\ spc' = [spc EXCEPT ![s] = IF reg = <<>> THEN "idle" ELSE "each"]
  /\ hist' = Append(hist, [ev |-> <<s, count[s] + 1>>, open |-> reg # <<>>,
                           live |-> { reg[k] : k \in { j \in 1..Len(reg) : ctx[reg[j]] = "live" } }])
  /\ UNCHANGED <<reg, lpc, ctx, wpc, closed, inside, sctx, got>>

\* take the shared lock of the next listener (blocked while its watcher wants the exclusive one)
Enter(s) ==
  LET l == Head(targets[s]) IN
  /\ spc[s] = "each" /\ (ListenerLock => wpc[l] # "locking")
  /\ (Eager => inside[l] = {})     \* (Gen: which of two senders inside one listener a receive serves is Go's choice)
  /\ Step("Enter", s, l)
  /\ inside' = [inside EXCEPT ![l] = inside[l] \cup {s}]
  /\ spc' = [spc EXCEPT ![s] = "inside"]
  /\ UNCHANGED <<reg, lpc, ctx, wpc, closed, targets, needGc, count, sctx, got, hist>>

CloseHist(s) == [k \in 1..Len(hist) |-> IF hist[k].ev = <<s, count[s]>> THEN [hist[k] EXCEPT !.open = FALSE] ELSE hist[k]]
Leave(s, l, gc) ==
  /\ inside' = [inside EXCEPT ![l] = inside[l] \ {s}]
  /\ targets' = [targets EXCEPT ![s] = Tail(targets[s])]
  /\ needGc' = [needGc EXCEPT ![s] = needGc[s] \/ gc]
  /\ IF Len(targets[s]) = 1
       THEN /\ spc' = [spc EXCEPT ![s] = IF needGc[s] \/ gc THEN "collect" ELSE "idle"]
            /\ hist' = CloseHist(s)
       ELSE spc' = [spc EXCEPT ![s] = "each"] /\ UNCHANGED hist

\* the consumer of l receives: rendezvous with the sender inside (only on an open channel)
Recv(s, l) ==
  /\ spc[s] = "inside" /\ Head(targets[s]) = l /\ ~closed[l]
  /\ (Eager => ctx[l] = "live")     \* (an idle consumer loses the select against a cancelled context)
  /\ Step("Recv", l, s)
  /\ got' = [got EXCEPT ![l] = Append(got[l], <<s, count[s]>>)]
  /\ Leave(s, l, FALSE)
  /\ UNCHANGED <<reg, lpc, ctx, wpc, closed, count, sctx>>
\* the sender notices the listener's context is cancelled: skipped, garbage to collect
Skip(s) ==
  LET l == Head(targets[s]) IN
  /\ spc[s] = "inside" /\ ctx[l] = "cancelled"
  /\ Step("Skip", s, l)
  /\ Leave(s, l, TRUE)
  /\ UNCHANGED <<reg, lpc, ctx, wpc, closed, count, sctx, got>>
\* the sender's own context ends while it waits: the Send is abandoned
SendCtxDone(s) ==
  /\ SendCtxMayEnd /\ sctx[s] = "live" /\ spc[s] = "inside"
  /\ Step("SendCtxDone", s, None)
  /\ sctx' = [sctx EXCEPT ![s] = "done"]
  /\ UNCHANGED <<reg, lpc, ctx, wpc, closed, inside, spc, targets, needGc, count, got, hist>>
\* ... and the listeners not served yet are offered the event without waiting: those whose consumer happens to
\* be receiving at that instant (and whose channel is open) get it, the others do not.  (In the Gen configuration
\* the harness is the consumer and receives only at Recv steps: nobody is ready.)
Abandon(s) ==
  LET l == Head(targets[s])
      rest == { targets[s][k] : k \in 2..Len(targets[s]) }
      able == IF Eager THEN {} ELSE { x \in rest : ~closed[x] /\ ctx[x] = "live" /\ wpc[x] # "locking" }
  IN
  /\ spc[s] = "inside" /\ sctx[s] = "done"
  /\ Step("Abandon", s, l)
  /\ \E ready \in SUBSET able :
        got' = [x \in Listeners |-> IF x \in ready THEN Append(got[x], <<s, count[s]>>) ELSE got[x]]
  /\ inside' = [inside EXCEPT ![l] = inside[l] \ {s}]
  /\ targets' = [targets EXCEPT ![s] = <<>>]
  /\ spc' = [spc EXCEPT ![s] = "done"]
  /\ hist' = [k \in 1..Len(hist) |-> IF hist[k].ev = <<s, count[s]>> THEN [hist[k] EXCEPT !.open = FALSE, !.live = {}] ELSE hist[k]]
  /\ UNCHANGED <<reg, lpc, ctx, wpc, closed, needGc, count, sctx>>

Collect(s) ==
  /\ spc[s] = "collect"
  /\ Step("Collect", s, None)
  /\ reg' = SelectSeq(reg, LAMBDA l : ctx[l] = "live")
  /\ spc' = [spc EXCEPT ![s] = "idle"]
  /\ UNCHANGED <<lpc, ctx, wpc, closed, inside, targets, needGc, count, sctx, got, hist>>

Next == \/ \E l \in Listeners : Listen(l) \/ Cancel(l) \/ StopLock(l) \/ StopClose(l)
        \/ \E s \in Senders : SendSnap(s) \/ Enter(s) \/ Skip(s) \/ SendCtxDone(s) \/ Abandon(s) \/ Collect(s)
        \/ \E s \in Senders, l \in Listeners : Recv(s, l)
\* Steps the code takes by itself (no gate in between): in the Gen configuration they pre-empt everything
\* else, so that the printed schedules are the ones a harness can force.
Urgent == \/ \E s \in Senders : Skip(s) \/ Abandon(s) \/ Collect(s)
          \/ \E l \in Listeners : StopClose(l)
UrgentEnabled == \/ \E s \in Senders : spc[s] = "collect" \/ (spc[s] = "inside" /\ (sctx[s] = "done" \/ ctx[Head(targets[s])] = "cancelled"))
                 \/ \E l \in Listeners : wpc[l] = "locking" /\ inside[l] = {}
NextGen == IF UrgentEnabled THEN Urgent ELSE Next
SpecGen == Init /\ [][NextGen]_vars

\* fairness: library goroutines run; consumers and cancels are up to the environment
Fair == /\ \A l \in Listeners : WF_vars(StopLock(l)) /\ WF_vars(StopClose(l))
        /\ \A s \in Senders : WF_vars(Enter(s)) /\ WF_vars(Skip(s)) /\ WF_vars(Abandon(s)) /\ WF_vars(Collect(s))
Spec == Init /\ [][Next]_vars /\ Fair
ViewNoHist == <<reg, lpc, ctx, wpc, closed, inside, spc, targets, needGc, count, sctx, got, hist>>

----------------------------------------------------------------------------
\* the safety that would be a Go panic: the channel is never closed under a sender, nor used after
\* (a sender inside l.send may be executing "l.ch <- event" at any moment)
NoSendOnClosed == [][\A l \in Listeners : closed'[l] /\ ~closed[l] => inside[l] = {}]_vars
ClosedOnlyWhenEmpty == \A l \in Listeners : wpc[l] = "done" => closed[l]
LockDiscipline == \A l \in Listeners : closed[l] => ctx[l] = "cancelled"
\* every event reaches a listener at most once, in per-sender order
AtMostOnce == \A l \in Listeners : \A j, k \in 1..Len(got[l]) : j # k => got[l][j] # got[l][k]
PerSenderFIFO == \A l \in Listeners : \A j, k \in 1..Len(got[l]) :
                   j < k /\ got[l][j][1] = got[l][k][1] => got[l][j][2] < got[l][k][2]
\* a listener that was registered and live for the whole of a completed send received its event
InGot(l, ev) == \E k \in 1..Len(got[l]) : got[l][k] = ev
LiveGetsAll == \A k \in 1..Len(hist) : ~hist[k].open => \A l \in hist[k].live : InGot(l, hist[k].ev)
\* nothing is delivered to a listener that was cancelled before the send began
\* liveness: a cancelled listener's channel is closed, whatever its consumer does
CancelCloses == \A l \in Listeners : (lpc[l] = "listening" /\ ctx[l] = "cancelled") ~> closed[l]
\* a sender stuck on a cancelled listener gets away
SenderNotStuck == \A s \in Senders, l \in Listeners :
                    (spc[s] = "inside" /\ Head(targets[s]) = l /\ ctx[l] = "cancelled") ~> (spc[s] # "inside" \/ Head(targets[s]) # l)

----------------------------------------------------------------------------
\* Gen: print complete behaviours (every sender has sent everything, every listener was cancelled and closed)
Terminal == /\ \A s \in Senders : spc[s] \in {"idle", "done"} /\ (count[s] = MaxSends \/ spc[s] = "done")
            /\ \A l \in Listeners : lpc[l] = "listening" /\ (ctx[l] = "cancelled" => closed[l])
            /\ Cardinality({ x \in Listeners : ctx[x] = "cancelled" }) = MaxCancels
EmitCase == Terminal => PrintT("CASE " \o ToJson([
               nl |-> Cardinality(Listeners), ns |-> Cardinality(Senders), maxSends |-> MaxSends, sched |-> sched,
               expect |-> [got |-> [l \in 1..Cardinality(Listeners) |-> got[l]],
                           mustHave |-> [l \in 1..Cardinality(Listeners) |->
                                           [k \in 1..Len(hist) |-> [ev |-> hist[k].ev, must |-> l \in hist[k].live]]]]]))
=============================================================================
