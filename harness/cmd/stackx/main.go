// Command stackx drives trait servers through the full client stack
// WrapApi(router{name -> WrapApi(server)}) with histories generated from spec/StackGen.tla and records every
// response and stream message for spec/StackTrace.tla (property C14).
//
//	stackx list                                     the registry: triples found in the descriptors, targets, declared-uncovered servers
//	stackx run -target <id> -cases f -out f [-safe] replay the histories on one target
package main

import (
	"encoding/json"
	"fmt"
	"os"

	_ "github.com/smart-core-os/sc-api/go/traits"
)

type listing struct {
	Triples   []*triple        `json:"triples"`
	Targets   []*target        `json:"targets"`
	Uncovered []uncoveredEntry `json:"uncovered"`
}

func cmdList() {
	all := discoverTriples()
	l := listing{Triples: all, Targets: targets, Uncovered: uncoveredTable}
	for _, t := range targets {
		if findTriple(all, t.Service, t.Update) == nil {
			fmt.Fprintf(os.Stderr, "stackx: target %s: no triple %s/%s in the descriptors\n", t.ID, t.Service, t.Update)
			os.Exit(3)
		}
	}
	b, _ := json.Marshal(l)
	fmt.Println(string(b))
}

func main() {
	if len(os.Args) < 2 {
		fmt.Fprintln(os.Stderr, "usage: stackx list | run -target id -cases f -out f [-safe]")
		os.Exit(3)
	}
	switch os.Args[1] {
	case "list":
		cmdList()
	case "run":
		cmdRun()
	default:
		fmt.Fprintln(os.Stderr, "stackx: unknown command", os.Args[1])
		os.Exit(3)
	}
}
