---------------------------- MODULE ElectricConc ----------------------------
(***************************************************************************)
(* Concurrent part of the electric model specification (C19): two callers  *)
(* that each want to make a DIFFERENT mode the normal mode, with the       *)
(* operation split where the code splits it,                               *)
(*                                                                         *)
(*      take the model lock  ->  "check": look for another normal mode     *)
(*                           ->  "write": store the mode  ->  release,     *)
(*                                                                         *)
(* and the model lock (Model.mu, a readers/writer lock) as a variable.     *)
(* Electric.tla treats each operation as ONE atomic step; that is exactly  *)
(* what the write lock held from check to write buys, and what this module *)
(* checks: AtMostOneNormal in every reachable state, and at the end the    *)
(* outcome of the two calls is the outcome of one of the two serial orders *)
(* (Serializable: with no normal mode before exactly one call is refused,  *)
(* with another normal mode before both are).                              *)
(*                                                                         *)
(* Deviation "update-rlock" (constant Dev): UpdateMode takes the lock in   *)
(* read mode.  Two updates then hold it together, both checks run before   *)
(* either write, both write: TLC refutes AtMostOneNormal.                  *)
(*                                                                         *)
(* Second family (init = "del"): a switch of the active mode to x          *)
(* (ChangeActiveMode / UpdateActiveMode, or ChangeToNormalMode /           *)
(* ClearActiveMode with x the normal mode) against DeleteMode(x), the      *)
(* switch split at "check" = look the mode up / "write" = commit it as the *)
(* active mode, the delete at "check" = is it the active mode, does it     *)
(* exist / "write" = remove it.  ActiveExists: the active mode is never    *)
(* deleted, and always refers to a mode that exists.  Deviation            *)
(* "change-unlocked-commit": ChangeActiveMode looks the mode up under the  *)
(* read lock, releases it and commits without the lock - a DeleteMode(x)   *)
(* in the gap still sees the old active mode and succeeds, then the        *)
(* deleted mode becomes active: TLC refutes ActiveExists.                  *)
(*                                                                         *)
(* The initial states range over the cases (initial normal mode none /     *)
(* another mode, pairs of UpdateMode / AddMode / CreateMode carrying       *)
(* normal = true); EmitCase prints them for the harness, which replays     *)
(* each pair on the real model with the callers parked between check and   *)
(* write (forced schedule, harness/cmd/electric "pairs").                  *)
(***************************************************************************)
EXTENDS Integers, FiniteSets, Sequences, TLC, Json

CONSTANTS Dev

VARIABLES modes,   \* id |-> normal flag        (the table; titles etc. play no role here)
          active,  \* id of the active mode
          lockW,   \* 0 or the process holding Model.mu in write mode
          lockR,   \* the processes holding Model.mu in read mode
          pc,      \* per process: "idle" | "check" | "write" | "done"
          err,     \* per process: "" | "OK" | "AlreadyExists" | "NotFound"
          cfg      \* the case: [init, ops]
cvars == <<modes, active, lockW, lockR, pc, err, cfg>>

Procs == {1, 2}

\* operations in the record shape of Electric.tla (the harness and ElectricTrace read them)
Op(o, id, mask) == [op |-> o, id |-> id, normal |-> TRUE, title |-> 0, mask |-> mask, am |-> FALSE,
                    start |-> -1, dt |-> 0, src |-> "lit"]
UpdA == Op("Update", "a", "normal")
UpdB == Op("Update", "b", "normal")
AddD == Op("Add", "d", "nil")
AddE == Op("Add", "e", "nil")
Create == Op("Create", "", "nil")
Plain(o, id) == [Op(o, id, "nil") EXCEPT !.normal = FALSE]
ChangeA == Plain("Change", "a")
ClearN == Plain("Clear", "")
DeleteA == Plain("Delete", "a")
DelPairs == { <<ChangeA, DeleteA>>, <<ClearN, DeleteA>> }
Pairs == { <<UpdA, UpdB>>, <<UpdA, AddD>>, <<UpdA, Create>>, <<AddD, AddE>>, <<AddD, Create>>, <<Create, Create>> }

\* the id a call writes (CreateMode: the device allocates a fresh one, here "n<p>")
Target(p) == IF cfg.ops[p].op = "Create" THEN "n" \o ToString(p) ELSE cfg.ops[p].id
NormalIds == { i \in DOMAIN modes : modes[i] }

\* init "del": a is the normal mode, c is active
Init == /\ cfg \in { [init |-> i, ops |-> ops] : i \in {"none", "other"}, ops \in Pairs }
                 \cup { [init |-> "del", ops |-> ops] : ops \in DelPairs }
        /\ modes = [i \in {"a", "b", "c"} |-> (i = "c" /\ cfg.init = "other") \/ (i = "a" /\ cfg.init = "del")]
        /\ active = IF cfg.init = "del" THEN "c" ELSE ""
        /\ lockW = 0 /\ lockR = {}
        /\ pc = [p \in Procs |-> "idle"] /\ err = [p \in Procs |-> ""]

Kind(p) == cfg.ops[p].op
Unlocked(p) == Kind(p) = "Change" /\ "change-unlocked-commit" \in Dev
ReadMode(p) == (Kind(p) = "Update" /\ "update-rlock" \in Dev) \/ Unlocked(p)

Acquire(p) == /\ pc[p] = "idle" /\ lockW = 0
              /\ IF ReadMode(p) THEN lockR' = lockR \cup {p} /\ lockW' = lockW
                                ELSE lockR = {} /\ lockW' = p /\ lockR' = lockR
              /\ pc' = [pc EXCEPT ![p] = "check"]
              /\ UNCHANGED <<modes, active, err, cfg>>

Release(p) == /\ lockW' = IF lockW = p THEN 0 ELSE lockW
              /\ lockR' = lockR \ {p}

\* updateMode / createOrAddMode: "if this mode is normal, check that there isn't another normal mode"
Check(p) == /\ pc[p] = "check" /\ Kind(p) \in {"Update", "Add", "Create"}
            /\ LET refused == (NormalIds \ {Target(p)}) # {}
                   missing == cfg.ops[p].op = "Update" /\ Target(p) \notin DOMAIN modes
               IN IF refused \/ missing
                  THEN /\ err' = [err EXCEPT ![p] = IF refused THEN "AlreadyExists" ELSE "NotFound"]
                       /\ pc' = [pc EXCEPT ![p] = "done"] /\ Release(p)
                  ELSE /\ pc' = [pc EXCEPT ![p] = "write"] /\ UNCHANGED <<err, lockW, lockR>>
            /\ UNCHANGED <<modes, active, cfg>>

\* modes.Update / modes.Add
Write(p) == /\ pc[p] = "write" /\ Kind(p) \in {"Update", "Add", "Create"}
            /\ modes' = [i \in (DOMAIN modes) \cup {Target(p)} |-> IF i = Target(p) THEN TRUE ELSE modes[i]]
            /\ err' = [err EXCEPT ![p] = "OK"]
            /\ pc' = [pc EXCEPT ![p] = "done"] /\ Release(p)
            /\ UNCHANGED <<active, cfg>>

Finish(p, e) == /\ err' = [err EXCEPT ![p] = e] /\ pc' = [pc EXCEPT ![p] = "done"] /\ Release(p)
\* changeActiveMode: findMode (ChangeToNormalMode: normalMode first) ...
SwitchTarget(p) == IF Kind(p) = "Clear"
                   THEN (IF NormalIds = {} THEN "" ELSE CHOOSE i \in NormalIds : TRUE) ELSE cfg.ops[p].id
Lookup(p) == /\ pc[p] = "check" /\ Kind(p) \in {"Change", "Clear"}
             /\ IF SwitchTarget(p) \notin DOMAIN modes
                THEN Finish(p, "NotFound")
                ELSE /\ pc' = [pc EXCEPT ![p] = "write"] /\ UNCHANGED err
                     \* the deviation lets go of the lock here
                     /\ IF Unlocked(p) THEN Release(p) ELSE UNCHANGED <<lockW, lockR>>
             /\ UNCHANGED <<modes, active, cfg>>
\* ... activeMode.Set(mode); the target was fixed by the lookup (with the lock held nothing can
\* have changed in between)
Commit(p) == /\ pc[p] = "write" /\ Kind(p) \in {"Change", "Clear"}
             /\ active' = SwitchTarget(p)
             /\ Finish(p, "OK") /\ UNCHANGED <<modes, cfg>>
\* deleteMode: "if id == active.Id return ErrDeleteActiveMode", then modes.Delete
DelCheck(p) == /\ pc[p] = "check" /\ Kind(p) = "Delete"
               /\ IF cfg.ops[p].id = active THEN Finish(p, "FailedPrecondition")
                  ELSE IF cfg.ops[p].id \notin DOMAIN modes THEN Finish(p, "NotFound")
                  ELSE pc' = [pc EXCEPT ![p] = "write"] /\ UNCHANGED <<err, lockW, lockR>>
               /\ UNCHANGED <<modes, active, cfg>>
DelWrite(p) == /\ pc[p] = "write" /\ Kind(p) = "Delete"
               /\ modes' = [i \in (DOMAIN modes) \ {cfg.ops[p].id} |-> modes[i]]
               /\ Finish(p, "OK") /\ UNCHANGED <<active, cfg>>

Next == \E p \in Procs : Acquire(p) \/ Check(p) \/ Write(p) \/ Lookup(p) \/ Commit(p) \/ DelCheck(p) \/ DelWrite(p)
Spec == Init /\ [][Next]_cvars

----------------------------------------------------------------------------
AtMostOneNormal == Cardinality(NormalIds) <= 1
ActiveExists == active = "" \/ active \in DOMAIN modes
LockDiscipline == /\ lockW # 0 => lockR = {}
                  /\ \A p \in Procs : (pc[p] \in {"check", "write"} /\ ~(Unlocked(p) /\ pc[p] = "write"))
                                        <=> (lockW = p \/ p \in lockR)
\* the two serial orders agree here: with no normal mode before, the first call succeeds and the second
\* is refused; with another normal mode before, both are refused
\* switch against delete of the same mode: either the switch comes first (delete refused: active mode) or
\* the delete does (switch refused: not found) - exactly one of the two calls is refused
Serializable == (\A p \in Procs : pc[p] = "done") =>
                  Cardinality({ p \in Procs : err[p] = "OK" }) = (IF cfg.init = "other" THEN 0 ELSE 1)

EmitCase == (\A p \in Procs : pc[p] = "idle") => PrintT("CASE " \o ToJson(cfg))
=============================================================================
