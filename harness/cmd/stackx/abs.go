package main

import (
	"fmt"
	"sync"

	"google.golang.org/protobuf/proto"
	"google.golang.org/protobuf/reflect/protoreflect"
)

// Abstraction of a resource message for the specification: one small integer per top-level field of the
// message type, 0 = field not populated, otherwise the number of that field's value in a registry of the
// distinct values seen so far (deterministic wire encoding of the field alone).  Two messages are proto.Equal
// iff their vectors are equal (unknown fields and NaN aside, neither is generated); projecting a message
// through a read mask of top-level paths is zeroing the other positions, which Stack.tla does itself.

type registry struct {
	mu sync.Mutex
	m  map[string]int
}

var reg = &registry{m: map[string]int{}}

func (r *registry) id(key string) int {
	r.mu.Lock()
	defer r.mu.Unlock()
	if v, ok := r.m[key]; ok {
		return v
	}
	v := len(r.m) + 1
	r.m[key] = v
	return v
}

func zeros(n int) []int { return make([]int, n) }

func absMsg(md protoreflect.MessageDescriptor, m proto.Message) []int {
	n := md.Fields().Len()
	res := zeros(n)
	if m == nil {
		return res
	}
	r := m.ProtoReflect()
	if !r.IsValid() {
		return res
	}
	if r.Descriptor().FullName() != md.FullName() {
		panic(fmt.Sprintf("absMsg: got %s want %s", r.Descriptor().FullName(), md.FullName()))
	}
	for i := 0; i < n; i++ {
		fd := r.Descriptor().Fields().Get(i)
		if !r.Has(fd) {
			continue
		}
		one := r.New()
		one.Set(fd, r.Get(fd))
		b, err := proto.MarshalOptions{Deterministic: true}.Marshal(one.Interface())
		if err != nil {
			panic(err)
		}
		res[i] = reg.id(string(md.FullName()) + "#" + string(fd.Name()) + "#" + string(b))
	}
	return res
}

func sameVec(a, b []int) bool {
	if len(a) != len(b) {
		return false
	}
	for i := range a {
		if a[i] != b[i] {
			return false
		}
	}
	return true
}
