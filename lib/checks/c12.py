"""C12: routers deliver each request to the client registered under its name.

(B) forwarding  spec/Forward.tla: TLC model-checks the forwarder/pump step machine, generates scripts; the
                harness `routerx forward` runs every script through every method of every generated router
                (captured ServiceDesc handlers, fake child connections, optional default-name interceptor);
                ForwardTrace.tla evaluates the property clauses on every logged invocation.
(A) registry    spec/Router.tla: TLC model-checks concurrent Gets against Add/Remove, generates programs with
                complete schedules; `routerx registry` forces each schedule onto the real router (the fallback,
                the factory and the change callback are the gates) - on router.NewRouter and on a generated
                router through its typed accessors; `routerx stress` runs free-running concurrent first Gets;
                RouterTrace.tla checks every logged step against the specification's step function.
(C) generated   auxiliary translation validation (text level, outside the model-based family): the tree's own
                protoc plugins are rebuilt and run on a CodeGeneratorRequest assembled from the linked
                descriptors; the output is compared with the checked-in *_router.pb.go / *_wrap.pb.go.
"""
import difflib
import glob
import json
import os
import re
import shutil

import vf

CMD = "routerx"
CHUNK = 40000


# ------------------------------------------------------------------------------------------ helpers
def _trace(ctx, module, cfg, paths, what, on_obs, on_bad):
    """Stream the observation files through a *Trace module in chunks: on_obs(o) for every observation,
    on_bad(o, clauses) for every line on which a clause of the property is false."""
    def chunks():
        part = []
        for path in paths:
            with open(path) as f:
                for line in f:
                    line = line.strip()
                    if line:
                        part.append(line)
                        if len(part) == CHUNK:
                            yield part
                            part = []
        if part:
            yield part
    total = 0
    for n, part in enumerate(chunks()):
        p = ctx.path("%s-part%d.ndjson" % (what, n))
        with open(p, "w") as f:
            f.write("\n".join(part) + "\n")
        tr = ctx.tlc(module, cfg, workers=1, files={"obs.ndjson": p}, timeout=1800)
        if not any(l.startswith('"CHECKED %d"' % len(part)) for l in tr.out.splitlines()):
            raise vf.Inconclusive("%s trace check did not cover all %d observations:\n%s" % (what, len(part), tr.out[-3000:]))
        os.unlink(p)
        for line in part:
            on_obs(json.loads(line))
        for b in tr.cases("BAD "):
            on_bad(json.loads(part[b["line"] - 1]), b["fails"])
        total += len(part)
    ctx.count(total)
    return total


def _discover(ctx):
    """The harness table must cover every generated router of the tree (and nothing else)."""
    tree = set()
    for f in glob.glob(os.path.join(vf.REPO, "pkg", "trait", "*", "*_router.pb.go")):
        pkg = os.path.basename(os.path.dirname(f))
        for m in re.finditer(r"^func (New\w+Router)\(", open(f).read(), re.M):
            tree.add((pkg, m.group(1), os.path.basename(f)))
    lp = ctx.path("routers.ndjson")
    ctx.run_harness(["list", "-out", lp], cmd=CMD)
    rows = ctx.read_ndjson(lp)
    table = set((r["pkg"], r["ctor"], r["file"]) for r in rows)
    missing = sorted(tree - table)
    extra = sorted(table - tree)
    if missing or extra or not rows:
        raise vf.Inconclusive(
            "harness/cmd/routerx/table.go does not match the generated routers of %s: not in the table %s; "
            "in the table but not in the tree %s - add/remove the entries (one per `func New...Router(`)" %
            (vf.REPO, missing, extra))
    return rows


def _router_name(o):
    return "%s.%s" % (o["pkg"], o["ctor"][3:])


# ------------------------------------------------------------------------------------------ (B)
def forwarding(ctx, rows):
    thorough = ctx.tier == "thorough"
    ctx.mc("Forward", "ForwardMC.cfg", consts={"MaxK": 3 if thorough else 2}, workers=vf.NCPU, timeout=1800)
    gen = ctx.tlc("Forward", "ForwardGen.cfg", consts={"NCases": 500 if thorough else 60}, workers=4, timeout=900)
    scripts = gen.cases()
    if len(scripts) < 30:
        raise vf.Inconclusive("Forward Gen produced only %d scripts\n%s" % (len(scripts), gen.out[-2000:]))
    cpath = ctx.write_ndjson("fwd-scripts.ndjson", scripts)
    opath = ctx.path("fwd-obs.ndjson")
    ctx.run_harness(["forward", "-cases", cpath, "-out", opath, "-nreq", "2" if thorough else "1"], cmd=CMD, timeout=1800)
    nm = sum(len(r["unary"]) + len(r["streams"]) for r in rows)
    st = {"fwd": 0, "icpt": 0, "reached": 0, "notfound": 0, "covered": set(), "samples": []}

    def on_obs(o):
        if o["kind"] == "icpt":
            st["icpt"] += 1
            ctx.distinct(("icpt", o["via"], o["type"], o["in"]))
            return
        st["fwd"] += 1
        st["covered"].add((o["pkg"], o["ctor"], o["method"]))
        if o["calls"]:
            st["reached"] += 1
        elif o["code"] == "NotFound":
            st["notfound"] += 1
        if o["calls"] or o["code"] != "OK":
            s = dict(o["s"])
            s.pop("id", None)
            ctx.distinct(("fwd", o["pkg"], o["ctor"], o["method"], s, o["inv"]))
        if len(st["samples"]) < 3 and (st["fwd"] == 1 or (o["stream"] and len(o["msgs"]) > 1 and len(st["samples"]) < 2)
                                       or (not o["calls"] and len(st["samples"]) == 2)):
            st["samples"].append(o)

    def on_bad(o, fails):
        for clause in fails:
            if o["kind"] == "icpt":
                ctx.violation("C12/interceptor/%s/%s" % (o["via"], clause.replace("icpt:", "")),
                              "default-name interceptor: clause '%s' false on what the real code did" % clause, o)
            else:
                ctx.violation("C12/forward/%s/%s/%s" % (_router_name(o), o["method"], clause),
                              "%s method %s, script %d invocation %d: clause '%s' false on what the real router did" %
                              (_router_name(o), o["method"], o["s"]["id"], o["inv"], clause), o)

    _trace(ctx, "ForwardTrace", "ForwardTrace.cfg", [opath], "forward", on_obs, on_bad)
    want = set((r["pkg"], r["ctor"], m) for r in rows for m in r["unary"] + r["streams"])
    if st["covered"] != want:
        raise vf.Inconclusive("forward harness did not exercise every method: missing %s" % sorted(want - st["covered"])[:10])
    for o in st["samples"]:
        ctx.sample({k: o[k] for k in ("pkg", "ctor", "method", "stream", "s", "reg", "calls", "ev", "msgs", "hdr", "trl", "code", "msg")})
    ctx.cov["traces_validated_against_impl"] += st["fwd"]
    ctx.cov["forward"] = {"routers": len(rows), "methods": nm, "unary_methods": sum(len(r["unary"]) for r in rows),
                          "stream_methods": sum(len(r["streams"]) for r in rows), "scripts": len(scripts),
                          "invocations": st["fwd"], "interceptor_applications": st["icpt"],
                          "invocations_that_reached_a_client": st["reached"], "invocations_NotFound": st["notfound"]}


# ------------------------------------------------------------------------------------------ (A)
def registry(ctx):
    thorough = ctx.tier == "thorough"
    # (3 getters with a 2-operation mutator is 1.9e7 states / 10 min: the thorough tier splits it)
    # (getters, mutator program length, mutator processes)
    for ng, mm, nmut in ([(3, 1, 1), (2, 2, 1), (2, 1, 2)] if thorough else [(2, 1, 1), (1, 1, 2)]):
        ctx.mc("Router", "RouterMC.cfg", consts={"NGetters": ng, "MaxMut": mm, "Recheck": "TRUE", "NMutators": nmut},
               workers=vf.NCPU, timeout=3000)
    # the model has teeth: without the second look under the lock TLC must find two committed clients
    neg = ctx.tlc("Router", "RouterNeg.cfg", consts={"NGetters": 2, "MaxMut": 0}, workers=4, timeout=600)
    if "SingleCommit" not in neg.violated:
        raise vf.Inconclusive("Router.tla with Recheck = FALSE does not violate SingleCommit: the invariant is vacuous\n" + neg.out[-2000:])
    # ... and Remove must look up and delete in one critical section: with an unlocked pre-check two overlapping
    # Removes report a removal that never happened
    neg = ctx.tlc("Router", "RouterNegRemove.cfg", workers=4, timeout=600)
    if "EveryReportIsATransition" not in neg.violated:
        raise vf.Inconclusive("Router.tla with Precheck = TRUE does not violate EveryReportIsATransition\n" + neg.out[-2000:])
    gen = ctx.tlc("Router", "RouterGen.cfg", consts={"NCases": 6000 if thorough else 400}, workers=4, timeout=1800)
    cases = gen.cases()
    if len(cases) < 100:
        raise vf.Inconclusive("Router Gen produced only %d cases\n%s" % (len(cases), gen.out[-2000:]))
    cpath = ctx.write_ndjson("reg-cases.ndjson", cases)
    opath = ctx.path("reg-obs.ndjson")
    ctx.run_harness(["registry", "-cases", cpath, "-out", opath], cmd=CMD, timeout=1800)
    spath = ctx.path("stress-obs.ndjson")
    ctx.run_harness(["stress", "-out", spath, "-iters", "200000" if thorough else "20000"], cmd=CMD, timeout=1800)
    rpath = ctx.path("rmstress-obs.ndjson")
    ctx.run_harness(["rmstress", "-out", rpath, "-iters", "1000000" if thorough else "150000"], cmd=CMD, timeout=1800)
    st = {"rmrounds": 0, "rmoutcomes": 0, "reg": 0, "stress": 0, "binds": set(), "second_look": 0, "several": 0, "samples": []}

    def on_obs(o):
        if o["kind"] == "rmstress":
            st["rmrounds"] += o["count"]
            st["rmoutcomes"] += 1
            ctx.count(o["count"] - 1)
            ctx.distinct(("rmstress", o["n"], o["got"], o["chg"]))
            return
        if o["kind"] == "stress":
            st["stress"] += 1
            if o["faccalls"] > 1:
                st["several"] += 1
                ctx.distinct(("stress", o["n"], o["faccalls"], o["barrier"]))
            if st["stress"] == 1:
                st["samples"].append(o)
            return
        st["reg"] += 1
        st["binds"].add(o["bind"])
        if o["stage"] == "ins" and o["stage2"] == "idle" and o["cfg"]["hascb"]:
            st["second_look"] += 1
            if st["second_look"] == 1:
                st["samples"].append({k: o[k] for k in ("bind", "cfg", "op", "stage", "made", "pre", "post", "stage2", "ret", "chg")})
        if o["post"] != o["pre"] or o["ret"]["c"] != 0 or o["ret"]["code"] != "OK" or o["chg"] or o["stage2"] != "idle":
            ctx.distinct(("reg", o["bind"] == "raw", o["cfg"], o["op"], o["stage"], o["pre"], o["made"], o["pend"]))

    def on_bad(o, fails):
        for clause in fails:
            if o["kind"] == "rmstress":
                ctx.violation("C12/registry/raw/%s" % clause.replace(":", "/"),
                              "%d concurrent Removes of a present name (%d of the rounds): clause '%s' false on what the real "
                              "router did" % (o["n"], o["count"], clause), o)
            elif o["kind"] == "stress":
                ctx.violation("C12/registry/raw/%s/%s" % (clause.replace(":", "/"), "barrier" if o["barrier"] else "free"),
                              "%d concurrent first Gets of a new name: clause '%s' false on what the real router did" % (o["n"], clause), o)
            else:
                ctx.violation("C12/registry/%s/%s" % (o["bind"], clause.replace(":", "/")),
                              "case %d step %d (%s %s by process %d on %s): clause '%s' false on what the real router did" %
                              (o["case"], o["k"], o["op"]["op"], o["op"]["n"], o["p"], o["bind"], clause), o)

    _trace(ctx, "RouterTrace", "RouterTrace.cfg", [rpath, opath, spath], "registry", on_obs, on_bad)
    for o in st["samples"]:
        ctx.sample(o)
    ncase = len(cases) * 2
    ctx.cov["traces_validated_against_impl"] += ncase + st["stress"] + st["rmrounds"]
    ctx.cov["registry"] = {"cases": len(cases), "runs": ncase, "steps": st["reg"],
                           "cases_by_mode": {m: sum(1 for c in cases if c["mode"] == m) for m in ("seq", "conc", "race", "rmrace")},
                           "generated_routers_used_through_typed_accessors": len(st["binds"]) - 1,
                           "steps_where_the_second_look_found_another_client": st["second_look"],
                           "concurrent_remove_rounds": st["rmrounds"], "concurrent_remove_distinct_outcomes": st["rmoutcomes"],
                           "stress_iterations": st["stress"],
                           "stress_iterations_with_several_factory_calls": st["several"]}


# ------------------------------------------------------------------------------------------ (C)
def _canon(src):
    """A generated file up to the formatting of its import block (aliases equal to the package name,
    grouping and order are immaterial)."""
    imports = set()
    m = re.search(r"^import \(\n(.*?)^\)\n", src, re.M | re.S)
    if m:
        for line in m.group(1).splitlines():
            line = line.strip()
            if not line:
                continue
            mm = re.match(r'^(?:([\w.]+)\s+)?"([^"]+)"$', line)
            if not mm:
                imports.add((line, line))
                continue
            alias, path = mm.groups()
            if alias == path.rsplit("/", 1)[-1]:
                alias = None
            imports.add((alias, path))
        src = src[:m.start()] + "import (...)\n" + src[m.end():]
    return (frozenset(imports), src)


def generated(ctx):
    b = ctx.path("plugins")
    os.makedirs(b, exist_ok=True)
    for f in ("go.mod", "go.sum"):
        shutil.copy(os.path.join(vf.REPO, f), os.path.join(b, f))
    args = []
    for kind in ("router", "wrapper"):
        out = os.path.join(b, "protoc-gen-" + kind)
        p = vf.sh(["go", "build", "-modfile=" + os.path.join(b, "go.mod"), "-o", out, "./cmd/protoc-gen-" + kind],
                  cwd=vf.REPO, env=vf.GOENV, timeout=900, check=False)
        if p.returncode != 0:
            raise vf.Inconclusive("cannot build cmd/protoc-gen-%s of %s:\n%s" % (kind, vf.REPO, p.stdout[-3000:]))
        args += ["-%s-plugin" % kind, out]
    gdir = ctx.path("gen")
    ctx.run_harness(["gen", "-outdir", gdir, "-out", ctx.path("gen.ndjson")] + args, cmd=CMD, timeout=600)
    rows = ctx.read_ndjson(ctx.path("gen.ndjson"))
    if len(rows) < 2:
        raise vf.Inconclusive("the generators produced %d files" % len(rows))
    suffix = {"router": "_router.pb.go", "wrapper": "_wrap.pb.go"}
    checked_in = {}
    for kind, suf in suffix.items():
        for f in glob.glob(os.path.join(vf.REPO, "pkg", "trait", "*", "*" + suf)):
            checked_in[os.path.relpath(f, vf.REPO)] = kind
    matched = set()
    stats = {"generated": len(rows), "checked_in": len(checked_in), "identical": 0, "other_name_or_import_formatting_only": []}
    for r in rows:
        gsrc = open(os.path.join(gdir, r["plugin"], r["file"])).read()
        rel = r["file"]
        ctx.count(1)
        if rel in checked_in:
            matched.add(rel)
            have = open(os.path.join(vf.REPO, rel)).read()
            if have == gsrc:
                stats["identical"] += 1
                continue
            if _canon(have) == _canon(gsrc):
                stats["other_name_or_import_formatting_only"].append(rel)
                continue
            diff = "".join(difflib.unified_diff(have.splitlines(True), gsrc.splitlines(True), "checked-in/" + rel, "generated/" + rel, n=2))
            ctx.distinct(("gen", rel))
            ctx.violation("C12/generated/" + rel, "checked-in file differs from what cmd/protoc-gen-%s of the tree produces" % r["plugin"],
                          {"file": rel, "diff": diff[:6000]})
            continue
        # not under that name: the same content under another name in the same package?
        twin = None
        for other, kind in checked_in.items():
            if kind == r["plugin"] and os.path.dirname(other) == os.path.dirname(rel) and other not in matched:
                if _canon(open(os.path.join(vf.REPO, other)).read()) == _canon(gsrc):
                    twin = other
                    break
        if twin:
            matched.add(twin)
            stats["other_name_or_import_formatting_only"].append("%s (generator names it %s)" % (twin, os.path.basename(rel)))
            continue
        ctx.distinct(("gen", rel))
        ctx.violation("C12/generated/" + rel, "the generator produces this file but nothing like it is checked in", {"file": rel})
    for rel in sorted(set(checked_in) - matched):
        ctx.distinct(("gen", rel))
        ctx.violation("C12/generated/" + rel, "checked-in generated file is not produced by the tree's generator from the current descriptors",
                      {"file": rel})
    ctx.cov["generated_files"] = stats
    ctx.cov["notes"].append("generated-file comparison is auxiliary translation validation at text level (no TLA+ model); "
                            "files equal up to their name / import-block formatting are listed, not reported")


def run(ctx):
    rows = _discover(ctx)
    forwarding(ctx, rows)
    registry(ctx)
    generated(ctx)
    ctx.cov["rule"] = (
        "forwarding: scripts (request name, interceptor, registry/fallback/factory tables, k messages, header, trailer, "
        "status position/code, caller failure, repetitions) generated by TLC from spec/Forward.tla (19 fixed, among them every look-empty name behind the interceptor, + random), each "
        "run through every method of every generated router with a random request; non-trivial = the request reached a "
        "client or an error came back; distinct = distinct (router, method, script, invocation). registry: programs with "
        "complete schedules generated by TLC from spec/Router.tla (sequential, concurrent, racing first Gets), each forced "
        "step by step onto router.NewRouter and onto one generated router's typed accessors; non-trivial = the step changed "
        "the registry, returned a client/error, reported a change or parked in a gate; distinct = distinct (binding kind, "
        "configuration, operation, stage, registry before, locals). generated: one evaluation per generated file.")
    ctx.assumptions.append("the sc-api descriptors linked into the harness are the 'current API descriptors' (same module "
                           "version as go.mod of the tree); no protoc in the sandbox")
    ctx.assumptions.append("fake child connections implement the grpc.ClientStream contract: header on demand, trailer only "
                           "after RecvMsg returned an error; unary header/trailer are not part of the property")


MANIFEST = {
    "engine": "spec/Forward.tla + ForwardTrace.tla, spec/Router.tla + RouterTrace.tla (TLC) + harness 'routerx' "
              "(forward, registry, stress, gen)",
    "technique": "TLA+ specifications of the forwarder/stream pump and of the concurrent registry; TLC model-checks both, "
                 "generates forwarding scripts and registry programs with complete schedules; the harness runs every script "
                 "through every method of all 65 generated routers (captured gRPC handlers, recording fake connections) and "
                 "forces every schedule onto the real router using its fallback/factory/callback as gates; TLC evaluates the "
                 "property clauses on every logged invocation / step; plus text-level translation validation of the generated files",
    "text": "Forward.tla: name resolution (registry, then fallback, then factory; interceptor fills only empty names) and the "
            "server-stream pump (header, k messages, trailer, status at any position, caller failure) as a step machine whose "
            "final observation must satisfy the same clause set Fails(o) that is evaluated on the real routers: request reaches "
            "exactly the named client once and unaltered, responses/status/header/trailer unaltered and ordered, NotFound touches "
            "nothing, no method answers Unimplemented. Router.tla: LocalStep gives every step of Add/Remove/Has/Get; TLC checks "
            "single commit of concurrent first Gets (and that dropping the second look under the lock breaks it), callbacks = "
            "transitions, registry = fold of transitions; generated schedules are forced step by step and each logged step must "
            "equal LocalStep. Bounded model checking plus conformance on generated cases; not a proof.",
    "note": "Trusted base: TLC; the harness fakes (grpc.ClientConnInterface / ClientStream / ServerStream) and its reporting; "
            "proto.Equal as the abstraction of 'unaltered'; harness/cmd/routerx/table.go must list every router (checked against "
            "the tree on every run, INCONCLUSIVE otherwise). The windows of Get are bracketed by harness-controlled callbacks, "
            "so no hook points in pkg/router are needed; GetFactory and GetInsert are separated by a gate at the factory's "
            "exit. Generated-file equality is a textual side check outside the model-based family.",
}
