---------------------------- MODULE FanSpeedTrace ----------------------------
(***************************************************************************)
(* Trace use of FanSpeed.tla.  One line = one UpdateFanSpeed RPC on the   *)
(* real ModelServer: the fan speed before (Model.FanSpeed), the request   *)
(* as sent, the response, the fan speed afterwards; every line carries    *)
(* the preset table the model was built with.  "New" = construction.      *)
(***************************************************************************)
EXTENDS FanSpeed, TLC, Json

VARIABLE c
Obs == ndJsonDeserialize("obs.ndjson")
If(b, name) == IF b THEN {} ELSE {name}

UpdateFails(t) ==
  LET ps == t.presets
      e == Eff(t.pre, t.req)
      r == Update(ps, t.pre, t.req)
  IN
  \* the one relation the property states for every state with a preset
  \* (a model given presets but no initial fan speed starts at the default "off"/0%, which its table may not have
  \* or may have with another percentage: that state is nobody's configuration; it is not asserted while it stays)
  If((t.post = t.pre /\ ~Consistent(ps, t.pre)) \/ Consistent(ps, t.post), "preset-index-percentage-consistent")
  \cup
  (IF ~Settled(ps, t.pre, t.req) THEN {}      \* empty / unknown presets: not settled by the property text
   ELSE If(t.err = "OK", "err")
        \cup (IF e.preset # t.pre.preset THEN If(t.post = r.post, "changed-preset-wins")
              ELSE IF e.index # t.pre.index THEN
                     If(t.post = r.post, IF t.req.relative THEN "relative-index-step" ELSE "changed-index-wins-over-percentage")
              ELSE IF e.pct # t.pre.pct THEN
                     \* with several presets of that percentage the text does not say which one is selected
                     If(t.post.pct = e.pct /\ (Matches(ps, e.pct) # {} => t.post.preset # ""),
                        IF t.req.relative THEN "relative-percentage-step" ELSE "changed-percentage")
              ELSE If(t.post = t.pre, "unchanged-request-changed-state"))
        \cup If(t.err # "OK" \/ t.ret = t.post, "response-is-stored-value"))

Fails(t) ==
  IF t.panic # "" THEN {"panic"}
  \* the first read of the constructed model (FanSpeed() = post, the PullFanSpeed seed = seed) against the option
  \* sequence folded by ConfInit; with presets but no initial fan speed the starting point is not configured
  ELSE IF t.op = "New" THEN If(~HasOpt(t.opts, "init") \/ t.post = ConfInit(t.opts), "initial-fan-speed-used")
                            \cup If(HasOpt(t.opts, "init") \/ HasOpt(t.opts, "presets") \/ t.post = DefaultInit, "default-fan-speed")
                            \cup If(t.seed = t.post, "pull-seed-is-first-read")
                            \cup If(t.presets = ConfPresets(t.opts), "spec-presets-not-folded")
  ELSE UpdateFails(t)

BadLines == { k \in 1..Len(Obs) : Fails(Obs[k]) # {} }
TraceInit == c = 0
TraceNext == UNCHANGED c
EmitBad == \A k \in BadLines : PrintT("BAD " \o ToJson([line |-> k, fails |-> Fails(Obs[k])]))
TraceChecked == EmitBad /\ PrintT("CHECKED " \o ToString(Len(Obs)))
=============================================================================
