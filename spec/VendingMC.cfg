SPECIFICATION Spec
CONSTRAINT Bounded
INVARIANTS UnitsKept UsedIsSum RemainingIsFlooredDifference FailureIsNoop OnlyCategoryErrors
VIEW ViewNoHist
