---------------------------- MODULE MeterGen ----------------------------
(***************************************************************************)
(* Gen use of Meter.tla: an initial reading with any admissible subset of *)
(* start/end present (or none at all), then 10..MaxOps RecordReading /    *)
(* Reset calls, the harness clock advancing by dt ticks before each; some *)
(* RecordReading calls are overtaken by another client's call at the      *)
(* instant they read the (stepped) clock.                                 *)
(***************************************************************************)
EXTENDS Meter, TLC, Json

CONSTANTS NCases, MaxOps
VARIABLE c

R(S) == RandomElement(S)
Flip(z, pct) == RandomElement(1..100) <= pct
Pick(z, seq) == seq[RandomElement(1..Len(seq))]

\* RecordDuring: the harness clock holds RecordReading right after it has taken its instant, another client's
\* call (inner, dt2 >= 1 ticks later) runs in between, then the recorder goes on
Op(z) == [op |-> Pick(z, <<"Record", "Record", "Record", "Record", "Reset", "RecordDuring", "RecordDuring">>),
          dt |-> Pick(z, <<0, 1, 1, 2, 5>>), v |-> R(0..50),
          inner |-> Pick(z, <<"Reset", "Reset", "Record", "None">>), v2 |-> R(0..50), dt2 |-> Pick(z, <<1, 1, 2>>)]

\* the clock starts at tick 10; supplied times lie before it
InitReading(z) ==
  LET s == R(0..9)
      which == Pick(z, <<"none", "start", "both", "both">>)
  IN [usage |-> R(0..50),
      start |-> IF which = "none" THEN None ELSE Some(s),
      end |-> IF which = "both" THEN Some(R(s..10)) ELSE None]

\* a random permutation of a sequence
RECURSIVE Shuffle(_, _)
Shuffle(z, s) == IF s = <<>> THEN <<>>
                 ELSE LET i == RandomElement(1..Len(s))
                      IN <<s[i]>> \o Shuffle(z, [j \in 1..(Len(s) - 1) |-> IF j < i THEN s[j] ELSE s[j + 1]])

\* the clock option and (mostly) an initial reading, in either order
Prog(k) ==
  LET hasInit == Flip(k, 70)
      opts == Shuffle(k, <<[kind |-> "clock", init |-> NoReading]>>
                         \o (IF hasInit THEN <<[kind |-> "init", init |-> InitReading(k)]>> ELSE <<>>))
  IN [model |-> "meter", n |-> k,
      cfg |-> [opts |-> opts, hasInit |-> HasOpt(opts, "init"), init |-> ConfReading(opts)],
      ops |-> [j \in 1..R(10..MaxOps) |-> Op(k)]]

GenInit == c \in { Prog(k) : k \in 1..NCases }
GenNext == UNCHANGED c
EmitCase == PrintT("CASE " \o ToJson(c))
=============================================================================
