---------------------------- MODULE Publication ----------------------------
(***************************************************************************)
(* C20, publicationpb.Model + ModelServer.  A publication record:         *)
(*   [id, body, mt, aud, ver, pt]                                          *)
(*   aud = [has, name, receipt, reason, rtime]   (the audience and the     *)
(*          acknowledgement state; rtime = optional receipt time)          *)
(*   ver = the version.  The server mints it as a hash of the content      *)
(*          (id, body, media type, audience name); all the protocol needs  *)
(*          is that it is an INJECTIVE FUNCTION of that content, so the    *)
(*          specification uses the content tuple itself: Minted(content).  *)
(*          Versions that came with the configuration are Foreign(k).      *)
(*   pt  = optional publish time (ticks of the harness clock)              *)
(* Create and Update mint a new version, stamp the publish time and reset *)
(* the receipt (NO_SIGNAL, no reason, no receipt time); Acknowledge needs *)
(* the current version, records receipt, reason and receipt time once --  *)
(* a second acknowledge changes nothing and (unless allow_acknowledged,   *)
(* whose return value is not asserted) is rejected.                       *)
(***************************************************************************)
EXTENDS Integers, Sequences, FiniteSets

IdOrder == <<"p1", "p2", "p3">>
Ids == { IdOrder[k] : k \in 1..Len(IdOrder) }
IRank(i) == CHOOSE k \in 1..Len(IdOrder) : IdOrder[k] = i

NoTime == [has |-> FALSE, v |-> 0]
At(t) == [has |-> TRUE, v |-> t]
NoAud == [has |-> FALSE, name |-> "", receipt |-> "RECEIPT_UNSPECIFIED", reason |-> "", rtime |-> NoTime]
FreshAud(name) == [has |-> TRUE, name |-> name, receipt |-> "NO_SIGNAL", reason |-> "", rtime |-> NoTime]
Acked(a) == a.has /\ a.receipt \in {"ACCEPTED", "REJECTED"}

Content(r) == [id |-> r.id, body |-> r.body, mt |-> r.mt, aud |-> r.aud.name]
NoContent == [id |-> "", body |-> "", mt |-> "", aud |-> ""]
Minted(cnt) == [minted |-> TRUE, c |-> cnt, f |-> 0]
Foreign(k) == [minted |-> FALSE, c |-> NoContent, f |-> k]

PubIds(st) == { st[k].id : k \in 1..Len(st) }
Has(st, i) == i \in PubIds(st)
Rec(st, i) == st[CHOOSE k \in 1..Len(st) : st[k].id = i]
Put(st, r) ==
  LET lo == SelectSeq(st, LAMBDA x : IRank(x.id) < IRank(r.id))
      hi == SelectSeq(st, LAMBDA x : IRank(x.id) > IRank(r.id))
  IN lo \o <<r>> \o hi
Without(st, i) == SelectSeq(st, LAMBDA x : x.id # i)

(* Configuration = the SEQUENCE of options handed to NewModel:               *)
(* [kind |-> "pubs", pubs |-> <<..>>] (WithInitialPublication, or resource   *)
(* initial records; "additive", may occur several times) and [kind |->       *)
(* "clock"] (a plain resource option).  Whatever the order and grouping, the *)
(* publications given are the initial publications, exactly as given.        *)
RECURSIVE PutAll(_, _)
PutAll(st, rs) == IF rs = <<>> THEN st ELSE PutAll(Put(st, Head(rs)), Tail(rs))
RECURSIVE ConfPubs(_)
ConfPubs(opts) == IF opts = <<>> THEN <<>>
                  ELSE PutAll(ConfPubs(Tail(opts)), IF Head(opts).kind = "pubs" THEN Head(opts).pubs ELSE <<>>)

\* the computed properties of every Create / Update
Publish(r, now) ==
  LET a == IF r.aud.has THEN FreshAud(r.aud.name) ELSE NoAud
      r2 == [r EXCEPT !.aud = a, !.pt = At(now)]
  IN [r2 EXCEPT !.ver = Minted(Content(r2))]

\* w = the written publication [id, body, mt, aud : [has, name]]
Create(st, now, w) ==
  IF Has(st, w.id) THEN [err |-> "AlreadyExists", post |-> st]
  ELSE [err |-> "OK",
        post |-> Put(st, Publish([id |-> w.id, body |-> w.body, mt |-> w.mt,
                                  aud |-> IF w.aud.has THEN FreshAud(w.aud.name) ELSE NoAud,
                                  ver |-> Foreign(0), pt |-> NoTime], now))]

\* mask \in {"none", "body", "body+media_type", "audience.name"}; vok = no version sent, or the current one
Merged(old, w, mask) ==
  CASE mask = "none" -> [old EXCEPT !.body = w.body, !.mt = w.mt, !.aud = IF w.aud.has THEN FreshAud(w.aud.name) ELSE NoAud]
    [] mask = "body" -> [old EXCEPT !.body = w.body]
    [] mask = "body+media_type" -> [old EXCEPT !.body = w.body, !.mt = w.mt]
    [] mask = "audience.name" -> [old EXCEPT !.aud = IF old.aud.has THEN [old.aud EXCEPT !.name = w.aud.name] ELSE FreshAud(w.aud.name)]
Update(st, now, w, mask, vok) ==
  IF ~Has(st, w.id) THEN [err |-> "NotFound", post |-> st]
  ELSE IF ~vok THEN [err |-> "FailedPrecondition", post |-> st]
  ELSE [err |-> "OK", post |-> Put(st, Publish(Merged(Rec(st, w.id), w, mask), now))]

\* kind: what the protocol makes of the request
AckKind(st, i, vmatch) ==
  IF ~Has(st, i) THEN "not-found" ELSE IF ~vmatch THEN "version-mismatch"
  ELSE IF Acked(Rec(st, i).aud) THEN "second" ELSE "first"
Acknowledge(st, now, i, vmatch, receipt, reason) ==
  IF AckKind(st, i, vmatch) # "first" THEN st
  ELSE LET r == Rec(st, i)
       IN Put(st, [r EXCEPT !.aud = [has |-> TRUE, name |-> r.aud.name, receipt |-> receipt, reason |-> reason, rtime |-> At(now)]])

Delete(st, i, vok, allowMissing) ==
  IF ~Has(st, i) THEN [err |-> IF allowMissing THEN "OK" ELSE "NotFound", post |-> st]
  ELSE IF ~vok THEN [err |-> "FailedPrecondition", post |-> st]
  ELSE [err |-> "OK", post |-> Without(st, i)]

\* consistency of one record (for records the server has published)
RecordConsistent(r) ==
  /\ r.ver.minted => r.ver.c = Content(r)
  /\ Acked(r.aud) => r.aud.rtime.has
  /\ (r.aud.has /\ r.aud.receipt = "NO_SIGNAL") => ~r.aud.rtime.has /\ r.aud.reason = ""
  /\ (r.aud.rtime.has /\ r.pt.has) => r.pt.v <= r.aud.rtime.v
=============================================================================
