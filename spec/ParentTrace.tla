---------------------------- MODULE ParentTrace ----------------------------
(***************************************************************************)
(* Trace use of Parent.tla.  One line of obs.ndjson = one call on the     *)
(* real parentpb.Model: the children before (ListChildren), the call, what*)
(* it returned, the children afterwards.  Each line is compared with the  *)
(* step function on its own pre-state.  Line "New" is the construction:   *)
(* pre = the children handed to WithInitialChildren, post = ListChildren. *)
(***************************************************************************)
EXTENDS Parent, TLC, Json

VARIABLE c
Obs == ndJsonDeserialize("obs.ndjson")
If(b, name) == IF b THEN {} ELSE {name}

Fails(t) ==
  IF t.panic # "" THEN {"panic"}
  \* first read (ListChildren = post, the PullChildren seed = seed) against the folded option sequence
  ELSE IF t.op = "New" THEN If(t.post = ConfChildren(t.opts), "initial-children-used")
                            \cup If(t.seed = t.post, "pull-seed-is-first-read")
  ELSE LET r == Step(t.pre, t.op, t.name, t.traits) IN
       If(WellFormed(t.post), "sorted-duplicate-free")
       \cup If(t.post = r.post,
               IF t.op = "RemoveChildTrait" /\ Has(t.pre, t.name)
                  /\ (SetOf(t.traits) \ SetOf(Child(t.pre, t.name).traits) # {} \/ Cardinality(SetOf(t.traits)) # Len(t.traits))
               THEN "trait-list-absent-or-repeated-trait" ELSE "trait-list")
       \cup If(t.err = r.err, "err")
       \* AddChild returns nothing; Add/RemoveChildTrait return the child as it is now stored (compared with
       \* the observed list, so that a wrong list is reported once, by the clause above)
       \cup If(CASE t.op = "AddChild" -> TRUE
                 [] t.op = "RemoveChildByName" -> t.ret = r.ret
                 [] OTHER -> t.ret = (IF Has(t.post, t.name) THEN Some(Child(t.post, t.name)) ELSE NoChild),
               "returned-child")
       \cup If(t.op # "AddChildTrait" \/ t.created = r.created, "created-flag")

BadLines == { k \in 1..Len(Obs) : Fails(Obs[k]) # {} }
TraceInit == c = 0
TraceNext == UNCHANGED c
EmitBad == \A k \in BadLines : PrintT("BAD " \o ToJson([line |-> k, fails |-> Fails(Obs[k])]))
TraceChecked == EmitBad /\ PrintT("CHECKED " \o ToString(Len(Obs)))
=============================================================================
