\* Collection family as the code has it (rng used while holding the read lock only): TLC finds the race on c.rng
SPECIFICATION Spec
CONSTANTS
  N = 2
  Family = "coll"
  RngGuard = "readlock"
  StreamGuard = "mutex"
  OldMutated = FALSE
  DefaultShared = "none"
  Mutant = "none"
INVARIANTS TypeOK NoRace
CHECK_DEADLOCK FALSE
