package main

import (
	"encoding/json"

	"github.com/smart-core-os/sc-api/go/traits"
	"github.com/smart-core-os/sc-golang/pkg/trait"
	"github.com/smart-core-os/sc-golang/pkg/trait/parentpb"
	"github.com/smart-core-os/sc-golang/verifharness/hx"
)

// ---- Parent.tla: children as [name, traits] records in name order ----------

type absChild struct {
	Name   string   `json:"name"`
	Traits []string `json:"traits"`
}
type optChild struct {
	Has bool     `json:"has"`
	V   absChild `json:"v"`
}

type parentOp struct {
	Op     string   `json:"op"`
	Name   string   `json:"name"`
	Traits []string `json:"traits"`
}
type parentWalk struct {
	N   int `json:"n"`
	Cfg struct {
		Init []absChild `json:"init"`
	} `json:"cfg"`
	Ops []parentOp `json:"ops"`
}
type parentObs struct {
	Model   string     `json:"model"`
	Walk    int        `json:"walk"`
	Step    int        `json:"step"`
	Op      string     `json:"op"`
	Name    string     `json:"name"`
	Traits  []string   `json:"traits"`
	Pre     []absChild `json:"pre"`
	Post    []absChild `json:"post"`
	Ret     optChild   `json:"ret"`
	Created bool       `json:"created"`
	Err     string     `json:"err"`
	Panic   string     `json:"panic"`
}

func absChildOf(c *traits.Child) absChild {
	a := absChild{Name: c.GetName(), Traits: []string{}}
	for _, t := range c.GetTraits() {
		a.Traits = append(a.Traits, t.GetName())
	}
	return a
}
func optChildOf(c *traits.Child) optChild {
	if c == nil {
		return optChild{V: absChild{Traits: []string{}}}
	}
	return optChild{Has: true, V: absChildOf(c)}
}
func concChild(a absChild) *traits.Child {
	c := &traits.Child{Name: a.Name}
	for _, t := range a.Traits {
		c.Traits = append(c.Traits, &traits.Trait{Name: t})
	}
	return c
}
func traitNames(ss []string) []trait.Name {
	res := make([]trait.Name, len(ss))
	for i, s := range ss {
		res[i] = trait.Name(s)
	}
	return res
}
func strs(ss []string) []string {
	if ss == nil {
		return []string{}
	}
	return ss
}

func parentState(m *parentpb.Model) []absChild {
	res := []absChild{}
	for _, c := range m.ListChildren() {
		res = append(res, absChildOf(c))
	}
	return res
}

func init() { register("parent", runParent) }

func runParent(raw json.RawMessage, out *hx.Out) {
	w := decode[parentWalk](raw)
	var m *parentpb.Model
	initial := []*traits.Child{}
	for _, c := range w.Cfg.Init {
		initial = append(initial, concChild(c))
	}
	o := parentObs{Model: "parent", Walk: w.N, Op: "New", Traits: []string{}, Pre: w.Cfg.Init, Post: []absChild{},
		Ret: optChildOf(nil), Err: "OK"}
	if o.Pre == nil {
		o.Pre = []absChild{}
	}
	o.Panic = hx.Catch(func() {
		m = parentpb.NewModel(parentpb.WithInitialChildren(initial...))
		o.Post = parentState(m)
	})
	out.Write(o)
	if m == nil {
		return
	}
	for i, op := range w.Ops {
		o := parentObs{Model: "parent", Walk: w.N, Step: i + 1, Op: op.Op, Name: op.Name, Traits: strs(op.Traits),
			Ret: optChildOf(nil), Err: "OK", Post: []absChild{}}
		o.Pre = parentState(m)
		o.Panic = hx.Catch(func() {
			switch op.Op {
			case "AddChildTrait":
				c, created := m.AddChildTrait(op.Name, traitNames(op.Traits)...)
				o.Ret, o.Created = optChildOf(c), created
			case "RemoveChildTrait":
				o.Ret = optChildOf(m.RemoveChildTrait(op.Name, traitNames(op.Traits)...))
			case "AddChild":
				m.AddChild(concChild(absChild{Name: op.Name, Traits: op.Traits}))
			case "RemoveChildByName":
				c, err := m.RemoveChildByName(op.Name)
				o.Ret, o.Err = optChildOf(c), hx.Code(err)
			default:
				hx.Fatal("parent: unknown op %q", op.Op)
			}
		})
		o.Post = parentState(m)
		out.Write(o)
	}
}
