SPECIFICATION Spec
CONSTANTS
  Writers <- W2
  Subs <- S1
  Ids <- I1
  MaxV = 6
  Programs <- EquivValPrograms
  SubKinds <- Kinds
  InitStores <- ValStores
  PublishAfterUnlock = FALSE
  CreatedRevalidated = TRUE
  DeleteHoldsLock = TRUE
  SnapHoldsLock = TRUE
  DeleteRechecks = TRUE
  Equiv = "val"
  SubSer = FALSE
  MayCancel = FALSE
  SnapAtCommit = TRUE
  CollectLive = TRUE
VIEW ViewNoHist
INVARIANTS TypeOK CommitValid EffectOnce LoserCodes Converged NoCommitMissed
CHECK_DEADLOCK FALSE
