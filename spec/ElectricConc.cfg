SPECIFICATION Spec
INVARIANTS AtMostOneNormal LockDiscipline Serializable EmitCase
