SPECIFICATION Spec
INVARIANT EndedWhenNothingMoves
