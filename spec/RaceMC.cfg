\* constants N, Family, RngGuard, StreamGuard, OldMutated, DefaultShared, Mutant are supplied by lib/checks/c11.py
SPECIFICATION Spec
INVARIANTS TypeOK NoRace
CHECK_DEADLOCK FALSE
