---------------------------- MODULE MeterTrace ----------------------------
(***************************************************************************)
(* Trace use of Meter.tla.  One line = one RecordReading or Reset on the  *)
(* real model under the harness clock (now), the reading before and after *)
(* read through GetMeterReading.  "New" = construction: pre = the initial *)
(* reading handed over (NoReading when none), post = the first reading.   *)
(* conc = the RecordReading was held by the stepped harness clock right   *)
(* after taking its instant (= now) while another call (inner, logged as  *)
(* its own line) was committed; pre = the reading when it was released.   *)
(***************************************************************************)
EXTENDS Meter, TLC, Json

VARIABLE c
Obs == ndJsonDeserialize("obs.ndjson")
If(b, name) == IF b THEN {} ELSE {name}

Fails(t) ==
  IF t.panic # "" THEN {"panic"}
  ELSE IF t.op = "New" THEN
         \* pre = ConfReading of the option sequence (checked), judged on the first GetMeterReading (post) and on
         \* the PullMeterReadings seed
         LET want == New(t.pre, t.now) IN
         If(t.pre = ConfReading(t.opts), "spec-configuration-not-folded")
         \cup If(t.seed = t.post, "pull-seed-is-first-read")
         \cup If(t.post.start.has /\ t.post.end.has, "start-and-end-recorded")
         \cup If(t.post.usage = want.usage, "initial-usage-used")
         \cup If(~t.pre.start.has \/ t.post.start = want.start, "initial-start-time-used")
         \cup If(~t.pre.end.has \/ t.post.end = want.end, "initial-end-time-used")
         \cup If(~(t.post.start.has /\ t.post.end.has) \/ t.post.start.v <= t.post.end.v, "start-not-after-end")
  ELSE IF t.op = "Record" /\ t.conc /\ t.inner # "None" THEN
         \* held by the stepped clock at its instant t.now while t.inner was committed; t.pre = the reading after that
         If(ConcurrentRecordOk(t.pre, t.now, t.v, t.err, t.post),
            IF t.err # "OK" THEN "refused-reading-changed-state"
            ELSE IF ~Ordered(t.post) THEN "overtaken-reading-start-after-end" ELSE "overtaken-reading-committed-inconsistently")
         \cup If(t.err # "OK" \/ t.ret = t.post, "response-is-stored-value")
  ELSE IF t.op = "Record" THEN
         LET want == Record(t.pre, t.now, t.v) IN
         If(t.err = "OK", "err")
         \cup If(Ordered(t.post), "start-not-after-end")
         \cup If(t.post.usage = want.usage, "usage-recorded")
         \cup If(t.post.end = want.end, "end-time-moves-to-now")
         \cup If(t.post.start = want.start, "start-time-kept")
         \cup If(t.err # "OK" \/ t.ret = t.post, "response-is-stored-value")
  ELSE LET want == Reset(t.pre, t.now) IN
       If(t.err = "OK", "err") \cup If(t.post = want, "reset-sets-both-times") \cup If(Ordered(t.post), "start-not-after-end")
       \cup If(t.err # "OK" \/ t.ret = t.post, "response-is-stored-value")

BadLines == { k \in 1..Len(Obs) : Fails(Obs[k]) # {} }
TraceInit == c = 0
TraceNext == UNCHANGED c
EmitBad == \A k \in BadLines : PrintT("BAD " \o ToJson([line |-> k, fails |-> Fails(Obs[k])]))
TraceChecked == EmitBad /\ PrintT("CHECKED " \o ToString(Len(Obs)))
=============================================================================
