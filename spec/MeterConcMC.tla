---------------------------- MODULE MeterConcMC ----------------------------
(***************************************************************************)
(* Concurrent MC use of Meter.tla: a recorder whose RecordReading is      *)
(* split at "reads the stored reading" / "takes its instant" / "commits"  *)
(* (the commit is refused when the stored reading was written since the   *)
(* read: resource.GetAndUpdate), a second client doing atomic Reset /     *)
(* RecordReading calls in between, and a ticking clock.                   *)
(* TakeFirst = FALSE is the design of the code base (read, then instant,  *)
(* then commit) and must keep start <= end; TakeFirst = TRUE (instant,    *)
(* then read, then commit) is the hoisted-clock variant: TLC finds the    *)
(* Reset that slips in after the instant and leaves end < start -- c20.py *)
(* runs both and expects exactly that.                                    *)
(***************************************************************************)
EXTENDS Meter, TLC

CONSTANTS MaxTime, TakeFirst
VARIABLES st, now, ver, pc, snap, at, val, done
vars == <<st, now, ver, pc, snap, at, val, done>>

Init == /\ now = 1 /\ st = New(NoReading, 1) /\ ver = 0
        /\ pc = "idle" /\ snap = 0 /\ at = 0 /\ val = 0
        /\ done = [n |-> 0, err |-> "OK", mid |-> st, at |-> 0, v |-> 0]
Tick == now < MaxTime /\ now' = now + 1 /\ UNCHANGED <<st, ver, pc, snap, at, val, done>>
\* the other client
OtherReset == st' = Reset(st, now) /\ ver' = ver + 1 /\ UNCHANGED <<now, pc, snap, at, val, done>>
OtherRecord == \E v \in 1..2 : st' = Record(st, now, v) /\ ver' = ver + 1 /\ UNCHANGED <<now, pc, snap, at, val, done>>
\* the recorder
Start == pc = "idle" /\ \E v \in 1..2 : val' = v /\ pc' = (IF TakeFirst THEN "take" ELSE "read") /\ UNCHANGED <<st, now, ver, snap, at, done>>
Read == pc = "read" /\ snap' = ver /\ pc' = (IF TakeFirst THEN "commit" ELSE "take") /\ UNCHANGED <<st, now, ver, at, val, done>>
Take == pc = "take" /\ at' = now /\ pc' = (IF TakeFirst THEN "read" ELSE "commit") /\ UNCHANGED <<st, now, ver, snap, val, done>>
Commit == /\ pc = "commit" /\ pc' = "idle"
          /\ IF snap = ver THEN st' = Record(st, at, val) /\ ver' = ver + 1 ELSE UNCHANGED <<st, ver>>
          /\ done' = [n |-> done.n + 1, err |-> IF snap = ver THEN "OK" ELSE "Aborted", mid |-> st, at |-> at, v |-> val]
          /\ UNCHANGED <<now, snap, at, val>>
Next == Tick \/ OtherReset \/ OtherRecord \/ Start \/ Read \/ Take \/ Commit
Spec == Init /\ [][Next]_vars
Bounded == ver <= 4 /\ done.n <= 2

StartNotAfterEnd == Ordered(st)
\* every finished RecordReading was refused without effect or committed a consistent reading (checked in the
\* state right after its commit, the only states in which done.n has just grown; harmless elsewhere)
EveryRecordOk == (pc = "idle" /\ done.n > 0 /\ done.err = "OK") => Ordered(Record(done.mid, done.at, done.v))
=============================================================================
