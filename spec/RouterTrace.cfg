INIT TraceInit
NEXT TraceNext
INVARIANT TraceChecked
CONSTANTS
  NGetters = 0
  MaxMut = 0
  Recheck = TRUE
  NCases = 0
  Precheck = FALSE
  NMutators = 1
