INIT TraceInit
NEXT TraceNext
INVARIANT TraceChecked
CONSTANTS
  NCells = 1
  NVals = 1
  StoreIn = FALSE
  InPlace = FALSE
  ReadEdits = FALSE
  FirstWriteKeeps = FALSE
  HookEditsOld = FALSE
  LendsOld = FALSE
  MergeFiltersSrc = FALSE
  InitKinds = {"absent", "present"}
  NCases = 1
  MinOps = 1
  MaxOps = 1
  MaxLive = 200
