package main

import (
	"context"
	"reflect"
	"sort"
	"strings"
	"time"

	"google.golang.org/protobuf/proto"
	"google.golang.org/protobuf/reflect/protoreflect"
	"google.golang.org/protobuf/types/known/fieldmaskpb"

	"github.com/smart-core-os/sc-golang/internal/testproto"
	"github.com/smart-core-os/sc-golang/pkg/resource"
)

type tat = testproto.TestAllTypes

// well-behaved interceptors: they read old, write only into the message being written, and copy values (no
// pointers from old are put into the new message: old is documented as read-only information)
func goodBefore(old, value proto.Message) {
	o, _ := old.(*tat) // old is nil while nothing is stored
	v := value.(*tat)
	v.DefaultInt32 += o.GetDefaultInt32()
	if o.GetDefaultNestedMessage() != nil && v.DefaultNestedMessage == nil {
		v.DefaultNestedMessage = proto.Clone(o.DefaultNestedMessage).(*testproto.TestAllTypes_NestedMessage)
	}
}
func goodAfter(old, dst proto.Message) {
	o, _ := old.(*tat)
	d := dst.(*tat)
	if o.GetDefaultString() != d.GetDefaultString() {
		d.DefaultInt64++
	}
}

// TestAllTypes has ~100 fields: a sparse random fill plus a shortlist of fields (nested messages, lists and maps of
// messages, bytes, a oneof) that are populated half of the time, so that consecutive writes meet in the same fields.
var tatShort = []string{"default_int32", "default_string", "default_bytes", "default_nested_message", "default_foreign_message",
	"default_well_known", "repeated_nested_message", "repeated_string", "map_string_nested_message", "map_string_string",
	"oneof_default_nested_message", "optional_int32"}
var tatPaths = append([]string{"default_nested_message.a", "default_nested_message.corecursive", "default_foreign_message.c",
	"default_well_known.default_timestamp", "oneof_default_nested_message.a"}, tatShort...)

func mkTat(e *env) *tat {
	m := newMsg[*tat](e, 4)
	pr := m.ProtoReflect()
	for _, name := range tatShort {
		if !e.flip(50) {
			continue
		}
		wideFiller.fillField(e.r, pr, pr.Descriptor().Fields().ByName(protoreflect.Name(name)), 30, 0)
	}
	return m
}

func tatMask(e *env) *fieldmaskpb.FieldMask {
	set := map[string]bool{}
	for n := 1 + e.r.Intn(3); n > 0; n-- {
		set[tatPaths[e.r.Intn(len(tatPaths))]] = true
	}
	mask := &fieldmaskpb.FieldMask{}
	for p := range set {
		mask.Paths = append(mask.Paths, p)
	}
	sort.Strings(mask.Paths)
	return mask
}

func tatReadOpts(e *env) []resource.ReadOption {
	if e.flip(25) {
		return []resource.ReadOption{resource.WithReadMask(tatMask(e))}
	}
	return nil
}

func tatPullOpts(e *env) []resource.ReadOption {
	opts := append(tatReadOpts(e), resource.WithBackpressure(e.flip(70)))
	if e.flip(25) {
		opts = append(opts, resource.WithUpdatesOnly(true))
	}
	return opts
}

func resWriteOpts(e *env, cur func() proto.Message) []resource.WriteOption {
	return resWriteOptsH(e, cur, false)
}

// isHeld: the written message is one the library handed out; InterceptBefore is documented to edit the written
// message, so it is only used with the caller's own fresh messages
func resWriteOptsH(e *env, cur func() proto.Message, isHeld bool) []resource.WriteOption {
	var opts []resource.WriteOption
	if e.flip(40) {
		opts = append(opts, resource.WithUpdateMask(tatMask(e)))
	}
	if e.flip(15) {
		opts = append(opts, resource.WithWriteTime(time.Unix(int64(e.r.Intn(1000)), 0)))
	}
	if e.flip(25) && !isHeld {
		opts = append(opts, resource.InterceptBefore(goodBefore))
	}
	if e.flip(25) {
		opts = append(opts, resource.InterceptAfter(goodAfter))
	}
	if e.flip(10) {
		opts = append(opts, resource.WithResetPaths("default_bool", "default_nested_message"))
	}
	if e.flip(15) && cur != nil {
		// the expected value is the caller's own message too
		if c := cur(); validMsg(c) {
			exp := proto.Clone(c)
			e.in(exp)
			opts = append(opts, resource.WithExpectedValue(exp))
		}
	}
	return opts
}

func resOptions(e *env) []resource.Option {
	var opts []resource.Option
	if e.flip(30) {
		opts = append(opts, resource.WithNoDuplicates())
	}
	if e.flip(20) {
		opts = append(opts, resource.WithWritablePaths(&tat{}, "default_int32", "default_string", "default_nested_message",
			"repeated_nested_message", "map_string_nested_message", "default_bytes", "repeated_string", "oneof_default_int32", "oneof_default_nested_message"))
	}
	return opts
}

func init() {
	register(target{name: "value", pkg: "resource", typ: reflect.TypeOf(&resource.Value{}),
		notOps: []string{"Clock"},
		build: func(e *env) *instance {
			opts := resOptions(e)
			// messages given to a constructor are not "handed to a write": not registered, not scribbled on.
			// Configuration "absent": a Value that holds nothing until the first Set (Get returns nil, Pull has no seed).
			if e.present {
				opts = append(opts, resource.WithInitialValue(mkTat(e)))
			}
			v := resource.NewValue(opts...)
			cur := func() proto.Message { return v.Get() }
			return &instance{
				state: func() []proto.Message { return []proto.Message{v.Get()} },
				ops: []op{
					{name: "Get", ro: true, run: func(e *env) error { e.out("result", v.Get(tatReadOpts(e)...)); return nil }},
					{name: "Set", run: func(e *env) error {
						m, isHeld := written(e, mkTat)
						res, err := v.Set(m, resWriteOptsH(e, cur, isHeld)...)
						e.out("result", res)
						return err
					}},
					{name: "Set", run: func(e *env) error {
						m, isHeld := written(e, mkTat)
						res, err := v.Set(m, resWriteOptsH(e, cur, isHeld)...)
						e.out("result", res)
						return err
					}},
					{name: "Pull", ro: true, run: func(e *env) error {
						o := tatPullOpts(e)
						return subscribe(e, "event", func(ctx context.Context) any { return v.Pull(ctx, o...) })
					}},
					cancelOp("Pull"),
				}}
		}})

	register(target{name: "collection", pkg: "resource", typ: reflect.TypeOf(&resource.Collection{}),
		notOps: []string{"Clock"},
		build: func(e *env) *instance {
			opts := resOptions(e)
			if e.flip(30) {
				opts = append(opts, resource.WithIDInterceptor(strings.ToLower))
			}
			for _, id := range e.initialIDs() {
				opts = append(opts, resource.WithInitialRecord(id, mkTat(e)))
			}
			c := resource.NewCollection(opts...)
			id := func(e *env) string { return e.pick("a", "b", "c", "d", "A", "B") }
			include := func(e *env) resource.ReadOption {
				k := int32(e.r.Intn(3))
				return resource.WithInclude(func(id string, m proto.Message) bool {
					return m != nil && m.(*tat).GetDefaultInt32() != k
				})
			}
			write := func(name string, f func(e *env, id string, m *tat, opts []resource.WriteOption) (proto.Message, error), genID bool) op {
				return op{name: name, run: func(e *env) error {
					m, isHeld := written(e, mkTat)
					i := id(e)
					o := resWriteOptsH(e, func() proto.Message { x, _ := c.Get(i); return x }, isHeld)
					if genID && e.flip(40) && !isHeld {
						i = ""
						o = append(o, resource.WithGenIDIfAbsent(), resource.WithIDCallback(func(id string) { m.DefaultString = id }))
					}
					res, err := f(e, i, m, o)
					e.out("result", res)
					return err
				}}
			}
			return &instance{
				state: func() []proto.Message { return c.List() },
				ops: []op{
					{name: "Get", ro: true, run: func(e *env) error {
						m, _ := c.Get(id(e), tatReadOpts(e)...)
						e.out("result", m)
						return nil
					}},
					{name: "List", ro: true, run: func(e *env) error {
						o := tatReadOpts(e)
						if e.flip(30) {
							o = append(o, include(e))
						}
						outList(e, "element", c.List(o...))
						return nil
					}},
					write("Add", func(e *env, id string, m *tat, o []resource.WriteOption) (proto.Message, error) {
						return c.Add(id, m, o...)
					}, true),
					write("Update", func(e *env, id string, m *tat, o []resource.WriteOption) (proto.Message, error) {
						if e.flip(50) {
							o = append(o, resource.WithCreateIfAbsent())
						}
						return c.Update(id, m, o...)
					}, false),
					write("Update", func(e *env, id string, m *tat, o []resource.WriteOption) (proto.Message, error) {
						return c.Update(id, m, append(o, resource.WithCreateIfAbsent())...)
					}, false),
					{name: "Delete", run: func(e *env) error {
						i := id(e)
						var o []resource.WriteOption
						if e.flip(40) {
							o = append(o, resource.WithAllowMissing(true))
						}
						if e.flip(25) {
							if cur, ok := c.Get(i); ok {
								exp := proto.Clone(cur)
								e.in(exp)
								o = append(o, resource.WithExpectedValue(exp))
							}
						}
						res, err := c.Delete(i, o...)
						e.out("result", res)
						return err
					}},
					{name: "Pull", ro: true, run: func(e *env) error {
						o := tatPullOpts(e)
						if e.flip(30) {
							o = append(o, include(e))
						}
						return subscribe(e, "event", func(ctx context.Context) any { return c.Pull(ctx, o...) })
					}},
					{name: "PullID", ro: true, run: func(e *env) error {
						o := tatPullOpts(e)
						i := id(e)
						return subscribe(e, "event", func(ctx context.Context) any { return c.PullID(ctx, i, o...) })
					}},
					cancelOp("Pull"),
				}}
		}})
}

// pair: two resources fed from one another, the way models do it (the active mode is set from the modes collection):
// a Collection A, a Value B that may have writable fields, a plain Value C.  The message written to one resource is
// what a read of another one returned - without a read mask that is the stored message of the other resource itself -
// with update masks, writable fields and reset masks on the write (Isolation.tla WriteOther).
func init() {
	register(target{name: "pair", pkg: "resource", typ: reflect.TypeOf(&resource.Value{}),
		notOps: []string{"Clock", "Get", "Pull", "Set"},
		build: func(e *env) *instance {
			var aopts, bopts []resource.Option
			for _, id := range e.initialIDs() {
				aopts = append(aopts, resource.WithInitialRecord(id, mkTat(e)))
			}
			if e.flip(30) {
				aopts = append(aopts, resource.WithWritablePaths(&tat{}, "default_int32", "default_string", "default_nested_message.a",
					"repeated_nested_message", "default_bytes", "map_string_nested_message"))
			}
			if e.flip(70) {
				bopts = append(bopts, resource.WithWritablePaths(&tat{}, "default_int32", "default_string", "default_nested_message.a",
					"default_foreign_message", "repeated_string", "map_string_string", "oneof_default_nested_message"))
			}
			if e.present {
				bopts = append(bopts, resource.WithInitialValue(mkTat(e)))
			}
			a := resource.NewCollection(aopts...)
			b := resource.NewValue(bopts...)
			c := resource.NewValue(resource.WithInitialValue(mkTat(e)))
			id := func(e *env) string { return e.pick("a", "b", "c") }
			wopts := func(e *env) []resource.WriteOption {
				var o []resource.WriteOption
				if e.flip(60) {
					o = append(o, resource.WithUpdateMask(tatMask(e)))
				}
				if e.flip(15) {
					o = append(o, resource.WithResetPaths("default_bool", "default_nested_message"))
				}
				if e.flip(20) {
					o = append(o, resource.InterceptAfter(goodAfter))
				}
				return o
			}
			vals := map[string]*resource.Value{"B": b, "C": c}
			var ops []op
			for _, from := range []string{"A", "B", "C"} {
				for _, to := range []string{"A", "B", "C"} {
					if from == to {
						continue
					}
					from, to := from, to
					ops = append(ops, op{name: "Set" + to + "From" + from, run: func(e *env) error {
						var src proto.Message
						if from == "A" {
							src, _ = a.Get(id(e))
						} else {
							src = vals[from].Get()
						}
						if !validMsg(src) {
							return nil
						}
						e.out("read"+from, src) // the caller holds it from a read ...
						var res proto.Message
						var err error
						if to == "A" { // ... and hands it to a write on the other resource
							res, err = a.Update(id(e), src, append(wopts(e), resource.WithCreateIfAbsent())...)
						} else {
							res, err = vals[to].Set(src, wopts(e)...)
						}
						e.out("result", res)
						return err
					}})
				}
			}
			ops = append(ops,
				op{name: "UpdateA", run: func(e *env) error {
					m, _ := written(e, mkTat)
					res, err := a.Update(id(e), m, append(wopts(e), resource.WithCreateIfAbsent())...)
					e.out("result", res)
					return err
				}},
				op{name: "SetC", run: func(e *env) error {
					m, _ := written(e, mkTat)
					res, err := c.Set(m, wopts(e)...)
					e.out("result", res)
					return err
				}},
				op{name: "ListA", ro: true, run: func(e *env) error { outList(e, "element", a.List(tatReadOpts(e)...)); return nil }},
				op{name: "GetB", ro: true, run: func(e *env) error { e.out("result", b.Get(tatReadOpts(e)...)); return nil }},
				op{name: "PullA", ro: true, run: func(e *env) error {
					o := tatPullOpts(e)
					return subscribe(e, "event", func(ctx context.Context) any { return a.Pull(ctx, o...) })
				}},
				op{name: "PullB", ro: true, run: func(e *env) error {
					o := tatPullOpts(e)
					return subscribe(e, "event", func(ctx context.Context) any { return b.Pull(ctx, o...) })
				}},
				cancelOp("PullA"))
			return &instance{ops: ops, state: func() []proto.Message {
				return append(a.List(), b.Get(), c.Get())
			}}
		}})
}
