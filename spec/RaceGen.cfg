\* constants NCases, MinProcs, MaxProcs, MaxOps are supplied by lib/checks/c11.py
INIT GenInit
NEXT GenNext
INVARIANT EmitCase
