---------------------------- MODULE SendTimeout ----------------------------
(***************************************************************************)
(* The timed side of C09: Value.Set towards a subscriber with backpressure *)
(* whose consumer is slow or stuck.                                        *)
(*                                                                         *)
(* A writer goes through: Begin (read + change callback), TakeSer (take    *)
(* the publication mutex, commit, start its send with a fresh timer of     *)
(* Limit ticks), then either Hand (the subscription's forwarder takes the  *)
(* event: the send is over, Set returns the value), Skip (the subscriber   *)
(* has cancelled) or Timeout (the timer ran out: Set returns an error).    *)
(* In every case the publication mutex is released when Set returns.      *)
(* The forwarder holds one event (held) until the consumer takes it        *)
(* (Recv); time passes by Tick.  Whatever the code does on its own accord  *)
(* (TakeSer, Hand, Skip, Timeout) is urgent: it happens before time passes *)
(* and before the environment (writers beginning, the consumer, a cancel)  *)
(* moves again -- which is what makes a behaviour replayable in real time. *)
(*                                                                         *)
(* Named deviations:                                                       *)
(*   TimerFromStart  the timer starts when Set is called, so it also runs  *)
(*                   while the write waits for the previous publication    *)
(*   LeakOnTimeout   the publication mutex is not released on the timeout  *)
(*                   path                                                  *)
(***************************************************************************)
EXTENDS Integers, Sequences, FiniteSets, TLC, Json

CONSTANTS Writers,          \* 1..n; writer w writes the value w
          Limit, MaxTime,
          TimerFromStart, LeakOnTimeout

VARIABLES now, pc, started, pubAt, deadline, res, endAt, ser, held, reader, got, log, sched
vars == <<now, pc, started, pubAt, deadline, res, endAt, ser, held, reader, got, log, sched>>

None == 0
Step(a, p) == sched' = Append(sched, [a |-> a, p |-> p])

Init == /\ now = 0
        /\ pc = [w \in Writers |-> "idle"]
        /\ started = [w \in Writers |-> -1] /\ pubAt = [w \in Writers |-> -1] /\ deadline = [w \in Writers |-> -1]
        /\ res = [w \in Writers |-> "none"] /\ endAt = [w \in Writers |-> -1]
        /\ ser = None /\ held = None /\ reader = "live"
        /\ got = <<>> /\ log = <<>> /\ sched = <<>>

Finish(w, r) == /\ pc' = [pc EXCEPT ![w] = "done"] /\ res' = [res EXCEPT ![w] = r] /\ endAt' = [endAt EXCEPT ![w] = now]

TakeSerEnabled(w) == pc[w] = "waitser" /\ ser = None
HandEnabled(w) == pc[w] = "sending" /\ held = None /\ reader = "live"
SkipEnabled(w) == pc[w] = "sending" /\ reader = "cancelled"
TimeoutEnabled(w) == pc[w] = "sending" /\ now >= deadline[w]
Urgent == \E w \in Writers : TakeSerEnabled(w) \/ HandEnabled(w) \/ SkipEnabled(w) \/ TimeoutEnabled(w)

\* (one writer waits for the publication mutex at a time: who of two waiting goroutines gets a mutex is not
\*  something a replay could steer)
Begin(w) == /\ ~Urgent /\ pc[w] = "idle" /\ \A v \in Writers : pc[v] # "waitser"
            /\ Step("Begin", w)
            /\ pc' = [pc EXCEPT ![w] = "waitser"] /\ started' = [started EXCEPT ![w] = now]
            /\ UNCHANGED <<now, pubAt, deadline, res, endAt, ser, held, reader, got, log>>

TakeSer(w) == /\ TakeSerEnabled(w)
              /\ Step("TakeSer", w)
              /\ ser' = w /\ log' = Append(log, w)
              /\ pc' = [pc EXCEPT ![w] = "sending"] /\ pubAt' = [pubAt EXCEPT ![w] = now]
              /\ deadline' = [deadline EXCEPT ![w] = (IF TimerFromStart THEN started[w] ELSE now) + Limit]
              /\ UNCHANGED <<now, started, res, endAt, held, reader, got>>

Hand(w) == /\ HandEnabled(w)
           /\ Step("Hand", w)
           /\ held' = w /\ Finish(w, "OK") /\ ser' = None
           /\ UNCHANGED <<now, started, pubAt, deadline, reader, got, log>>

Skip(w) == /\ SkipEnabled(w)
           /\ Step("Skip", w)
           /\ Finish(w, "OK") /\ ser' = None
           /\ UNCHANGED <<now, started, pubAt, deadline, held, reader, got, log>>

Timeout(w) == /\ TimeoutEnabled(w)
              /\ Step("Timeout", w)
              /\ Finish(w, "error") /\ ser' = IF LeakOnTimeout THEN ser ELSE None
              /\ UNCHANGED <<now, started, pubAt, deadline, held, reader, got, log>>

Recv == /\ ~Urgent /\ reader = "live" /\ held # None
        /\ Step("Recv", 0)
        /\ got' = Append(got, held) /\ held' = None
        /\ UNCHANGED <<now, pc, started, pubAt, deadline, res, endAt, ser, reader, log>>

CancelReader == /\ ~Urgent /\ reader = "live"
                /\ Step("CancelReader", 0)
                /\ reader' = "cancelled" /\ held' = None
                /\ UNCHANGED <<now, pc, started, pubAt, deadline, res, endAt, ser, got, log>>

Tick == /\ ~Urgent /\ now < MaxTime
        /\ Step("Tick", 0)
        /\ now' = now + 1
        /\ UNCHANGED <<pc, started, pubAt, deadline, res, endAt, ser, held, reader, got, log>>

Next == \/ \E w \in Writers : Begin(w) \/ TakeSer(w) \/ Hand(w) \/ Skip(w) \/ Timeout(w)
        \/ Recv \/ CancelReader \/ Tick
Spec == Init /\ [][Next]_vars
ViewNoHist == <<now, pc, started, pubAt, deadline, res, endAt, ser, held, reader, got, log>>

----------------------------------------------------------------------------
(* "a Value write whose event cannot be delivered within its five-second   *)
(* send timeout returns an error instead of hanging"                       *)
NoHang == \A w \in Writers : pc[w] = "sending" => now <= pubAt[w] + Limit
\* the error is for the write's own event: it was on offer for the whole of Limit
ErrorOnlyAfterOwnLimit == \A w \in Writers : res[w] = "error" => endAt[w] = pubAt[w] + Limit
\* nobody who has returned still holds the publication mutex (else every later write hangs)
SerOnlyWhilePublishing == ser # None => pc[ser] = "sending"
\* a waiting writer waits for a publication that is really under way
WaitIsForAPublication == \A w \in Writers : pc[w] = "waitser" => ser = None \/ pc[ser] = "sending"
(* "with backpressure nothing is dropped while the subscriber keeps        *)
(* receiving": what the consumer got and what its forwarder holds are the  *)
(* successfully written values in commit order                             *)
OKs == SelectSeq(log, LAMBDA w : res[w] = "OK")
NothingDropped == reader = "live" => got \o (IF held = None THEN <<>> ELSE <<held>>) = OKs
TypeOK == /\ now \in 0..MaxTime /\ ser \in Writers \cup {None} /\ held \in Writers \cup {None}
          /\ \A w \in Writers : pc[w] \in {"idle", "waitser", "sending", "done"}

----------------------------------------------------------------------------
(* Gen: complete behaviours (every writer has returned) with what the      *)
(* specification says about them.                                          *)
AllDone == \A w \in Writers : pc[w] = "done"
NW == Cardinality(Writers)
EmitCase == AllDone /\ ~Urgent =>
  PrintT("CASE " \o ToJson([nw |-> NW, limit |-> Limit, sched |-> sched,
                            expect |-> [res |-> [w \in 1..NW |-> res[w]], pubAt |-> [w \in 1..NW |-> pubAt[w]],
                                        endAt |-> [w \in 1..NW |-> endAt[w]], got |-> got, held |-> held,
                                        final |-> IF log = <<>> THEN 100 ELSE log[Len(log)],
                                        readerLive |-> (reader = "live")]]))
\* a behaviour stops once everybody has returned
GenNext == ~(AllDone /\ ~Urgent) /\ Next
SpecGen == Init /\ [][GenNext]_vars
=============================================================================
