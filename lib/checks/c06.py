from checks import masks_common


def run(ctx):
    masks_common.run(ctx, "proj")


MANIFEST = {'engine': "spec/Msg.tla + spec/Masks.tla (TLC) + harness 'masks'",
 'technique': 'TLA+ declarative projection; TLC laws (MC), TLC-generated (message, mask) pairs replayed on '
              'ResponseFilter/Value/Collection/Pull, TLC compares real results with the projection',
 'text': 'TLC checks projection laws (idempotent, monotone, parent+child = parent, leaf-wise '
         'characterisation) on the TLA+ Project operator, generates (message, mask) pairs including every '
         'single-path and systematically corrupted mask, the harness runs them through FilterClone, Filter, '
         'Value.Get, Collection.Get/List and Pull seed/update events, and TLC requires every result to equal '
         'the projection, the stored message to be unchanged, corrupted masks to be reported InvalidArgument '
         'and no read to panic.',
 'note': 'Trusted base: TLC 1.8.0 evaluating the TLA+ predicates; the Go abstraction function (harness/mini, '
         'Abs/Conc between spec messages and TestAllTypes); the harness reporting faithfully what the real '
         "code returned. Pull vias are only exercised for valid masks in-process (a panic in Pull's "
         'goroutine would kill the harness; such a crash is reported as a violation through crash '
         'attribution).'}
