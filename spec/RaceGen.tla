------------------------------ MODULE RaceGen ------------------------------
(***************************************************************************)
(* C11 workloads: TLC draws concurrent programs from the alphabet of        *)
(* RaceOps.tla.  A program = MinProcs..MaxProcs processes, each a list of   *)
(* 1..MaxOps operation kinds of one family (the family decides which shared *)
(* objects the world of the program has, so that the processes meet on the  *)
(* same object).  The world has 1..3 instances of every type and every      *)
(* process works on one of them; a program is emitted only if               *)
(* RaceOps!NonVacuous holds: with one instance two processes conflict on    *)
(* one object, with several instances two processes on DIFFERENT instances  *)
(* of one type meet (they share only the package-level defaults).           *)
(* harness/cmd/racex runs every program free-running under the race         *)
(* detector.  -seed makes the draw reproducible.                            *)
(***************************************************************************)
EXTENDS RaceOps, TLC, Json

CONSTANTS NCases, MinProcs, MaxProcs, MaxOps
VARIABLE c

NF == Len(Families)
\* (the parameter z only defeats TLC's caching of constant-level definitions)
RandOps(K, z) == [j \in 1..RandomElement(1..MaxOps) |-> RandomElement(K)]
GenProg(k) ==
  LET f == Families[(k % NF) + 1]
      \* the kinds of this program: a family, or for "dflt" one model type
      K == IF f = "dflt" THEN TypeKinds(RandomElement(DefaultModels)) ELSE FamilyKinds(f)
      W == { x \in K : Kind(x).w }
      n == RandomElement(MinProcs..MaxProcs)
      \* one program in three has a single instance of every type (all processes on the same objects), the others
      \* two or three instances; "pkg" helpers have no instance
      inst == IF f \in {"pkg", "mixed"} \/ (k \div NF) % 3 = 0 THEN 1 ELSE RandomElement(2..3)
      \* processes 1..inst start on their own instance with a writing operation, the others go anywhere
      on == [p \in 1..n |-> IF p <= inst THEN p ELSE RandomElement(1..inst)]
  IN [n |-> k, family |-> f, inst |-> inst, on |-> on,
      procs |-> [p \in 1..n |-> IF p <= inst \/ p = 1 THEN << RandomElement(W) >> \o RandOps(K, k + p) ELSE RandOps(K, k + p)]]

GenInit == c \in { GenProg(k) : k \in 1..NCases }
GenNext == UNCHANGED c
EmitCase == IF NonVacuous(c.procs, c.on, c.inst) THEN PrintT("CASE " \o ToJson(c)) ELSE PrintT("SKIP " \o ToString(c.n))
=============================================================================
