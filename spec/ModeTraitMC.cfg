SPECIFICATION Spec
INVARIANTS OnePerMode SteppedValueInList WrapLaws
VIEW ViewNoHist
