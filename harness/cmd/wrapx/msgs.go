package main

import (
	"fmt"
	"strconv"
	"strings"

	"google.golang.org/grpc"
	"google.golang.org/grpc/metadata"
	"google.golang.org/protobuf/proto"
	"google.golang.org/protobuf/reflect/protoreflect"

	"github.com/smart-core-os/sc-golang/internal/testproto"
)

// Messages carry one small integer: in field 1 (a string "m<v>" or an int32) and again in an
// unknown varint field 100, whose raw bytes make shallow copies detectable (they share the
// backing array).

func newReq(shape string) proto.Message {
	switch shape {
	case "unary", "ustream":
		return &testproto.UnaryRequest{}
	case "sstream":
		return &testproto.ServerStreamRequest{}
	case "cstream":
		return &testproto.ClientStreamRequest{}
	default:
		return &testproto.BidiStreamRequest{}
	}
}

func newRespEmpty(shape string) proto.Message {
	switch shape {
	case "unary", "ustream":
		return &testproto.UnaryResponse{}
	case "sstream":
		return &testproto.ServerStreamResponse{}
	case "cstream":
		return &testproto.ClientStreamResponse{}
	default:
		return &testproto.BidiStreamResponse{}
	}
}

func setVal(m proto.Message, v int) proto.Message {
	r := m.ProtoReflect()
	fd := r.Descriptor().Fields().ByNumber(1)
	if fd.Kind() == protoreflect.StringKind {
		r.Set(fd, protoreflect.ValueOfString("m"+strconv.Itoa(v)))
	} else {
		r.Set(fd, protoreflect.ValueOfInt32(int32(v)))
	}
	r.SetUnknown(protoreflect.RawFields{0xA0, 0x06, byte(v)})
	return m
}

func mkReq(shape string, v int) proto.Message  { return setVal(newReq(shape), v) }
func newResp(shape string, v int) proto.Message { return setVal(newRespEmpty(shape), v) }

// valOf reads the value back: -2 when field 1 does not parse, -3 when the unknown field
// disagrees with field 1 (e.g. was dropped or altered on the way).
func valOf(m proto.Message) int {
	r := m.ProtoReflect()
	fd := r.Descriptor().Fields().ByNumber(1)
	v := -2
	if fd.Kind() == protoreflect.StringKind {
		s := r.Get(fd).String()
		if strings.HasPrefix(s, "m") {
			if n, err := strconv.Atoi(s[1:]); err == nil {
				v = n
			}
		}
	} else {
		v = int(r.Get(fd).Int())
	}
	u := r.GetUnknown()
	if len(u) != 3 || u[0] != 0xA0 || u[1] != 0x06 || int(u[2]) != v {
		return -3
	}
	return v
}

// scribble overwrites the value in place, including the bytes of the unknown field.
func scribble(m proto.Message, marker int) {
	r := m.ProtoReflect()
	fd := r.Descriptor().Fields().ByNumber(1)
	if fd.Kind() == protoreflect.StringKind {
		r.Set(fd, protoreflect.ValueOfString("m"+strconv.Itoa(marker)))
	} else {
		r.Set(fd, protoreflect.ValueOfInt32(int32(marker)))
	}
	if u := r.GetUnknown(); len(u) == 3 {
		u[2] = byte(marker) // in place on purpose
	}
}

// MD is the user metadata the scripts use: two keys, values are small integers, order kept.
type MD struct {
	A []int `json:"a"`
	B []int `json:"b"`
}

func absMD(md metadata.MD) MD {
	conv := func(vs []string) []int {
		res := []int{}
		for _, v := range vs {
			n, err := strconv.Atoi(v)
			if err != nil {
				n = -1
			}
			res = append(res, n)
		}
		return res
	}
	return MD{A: conv(md.Get("x-a")), B: conv(md.Get("x-b"))}
}

func methodName(shape string) string {
	switch shape {
	case "unary", "ustream":
		return testproto.TestApi_Unary_FullMethodName
	case "sstream":
		return testproto.TestApi_ServerStream_FullMethodName
	case "cstream":
		return testproto.TestApi_ClientStream_FullMethodName
	case "bidi":
		return testproto.TestApi_BidiStream_FullMethodName
	}
	panic(fmt.Sprintf("unknown shape %q", shape))
}

func streamDesc(shape string) *grpc.StreamDesc {
	switch shape {
	case "ustream":
		return &grpc.StreamDesc{StreamName: "Unary"}
	case "sstream":
		return &testproto.TestApi_ServiceDesc.Streams[0]
	case "cstream":
		return &testproto.TestApi_ServiceDesc.Streams[1]
	case "bidi":
		return &testproto.TestApi_ServiceDesc.Streams[2]
	}
	panic(fmt.Sprintf("no stream desc for shape %q", shape))
}

// singleResponse: the client receives at most one message and RecvMsg reports the final
// status together with it.
func singleResponse(shape string) bool { return shape == "cstream" || shape == "ustream" }
