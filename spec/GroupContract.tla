---------------------------- MODULE GroupContract ----------------------------
(***************************************************************************)
(* C17: what one call of pkg/group's Execute* owes its caller, written as *)
(* predicates over an *outcome record* o.  The same predicates are used   *)
(*   - by Group.tla (MC): on the outcome of every behaviour of the model, *)
(*   - by GroupTrace.tla (Trace): on what the real code was seen to do.   *)
(*                                                                         *)
(* Outcome record (members are numbered 1..n; "member id" m also names    *)
(* the message member m returns and the error member m returns):          *)
(*   strat   "All" | "Most" | "Any" | "One" | "Fast" | "Race"              *)
(*   api     "Direct"  ExecuteAll/Most/Any/One/Fast/Race called directly   *)
(*           "Execute" group.Execute(strategy)                             *)
(*           "OnOff" | "Light"  through onoffpb.Group.GetOnOff /           *)
(*                     lightpb.Group.UpdateBrightness (only the error,     *)
(*                     panics, contexts and goroutines are visible)        *)
(*   n       number of members                                            *)
(*   act[m]  1 returned a message, 0 returned an error of its own, 2       *)
(*           returned an error because it saw its context ended, -1 never  *)
(*           returned                                                      *)
(*   ek[m]   what kind of error member m returned ("" if none): "plain",  *)
(*           "canceled" / "deadline" (context.Canceled / DeadlineExceeded  *)
(*           themselves), "wcanceled" / "wdeadline" (wrapped with %w),     *)
(*           "gcanceled" / "gdeadline" (gRPC status).  A member's own      *)
(*           error may be of any kind whatever the state of the group's    *)
(*           context (a per-member timeout, an inner operation that was    *)
(*           cancelled): the kind of a member's error never changes what   *)
(*           the strategy owes -- no clause below reads ek except to       *)
(*           recognise the bare context errors, which carry no member id.  *)
(*           Only the *group's own* context ending (cc) may cut a          *)
(*           strategy short.                                               *)
(*   ran[m]  the member function was invoked                               *)
(*   seen[m] the member's context was cancelled when it returned           *)
(*   obs     the order in which the members' returns were observable:      *)
(*           a sequence of batches [lead, all]; batches are totally        *)
(*           ordered, inside a batch `lead` (if # 0) came first and the    *)
(*           rest (members woken by a cancellation) in unknown order       *)
(*   panic   "" or the recovered panic                                     *)
(*   returned  the call came back                                          *)
(*   err     -1 nil, m >= 1 the error of member m, 0 an error without a    *)
(*           member id;  errk: its kind as in ek, or "other"               *)
(*   idx,msg (Direct One/Fast/Race) returned index (1-based) and message   *)
(*           id (0 = nil)                                                  *)
(*   res, resLen  the returned slice as message ids (0 = nil), -1/<<>> if  *)
(*           there is none                                                 *)
(*   cc      0, or the first batch whose members may have seen the         *)
(*           caller's own context ended (cancelled or deadline passed)     *)
(*   leak    goroutines started by the call that still exist after every   *)
(*           member has returned and nothing can move any more             *)
(***************************************************************************)
EXTENDS Integers, Sequences, FiniteSets, TLC

UpTo == {"All", "Most", "Any"}
Single == {"One", "Fast", "Race"}
Strategies == UpTo \cup Single

Range(s) == {s[k] : k \in 1..Len(s)}
Min(S) == CHOOSE x \in S : \A y \in S : x <= y
If(b, name) == IF b THEN {} ELSE {name}
RECURSIVE SetToSeq(_)
SetToSeq(S) == IF S = {} THEN <<>> ELSE LET x == Min(S) IN <<x>> \o SetToSeq(S \ {x})

Members(o) == 1..o.n
Ok(o)  == {m \in Members(o) : o.act[m] = 1}
Bad(o) == {m \in Members(o) : o.act[m] \in {0, 2}}
Came(o) == Ok(o) \cup Bad(o)
BatchOf(o, m) == Min({k \in 1..Len(o.obs) : m \in Range(o.obs[k].all)})

\* the returned error is member m's: by id, or for the id-less bare context errors by kind
BareKinds == {"canceled", "deadline"}
IsErrOf(o, m) == o.err = m \/ (o.err = 0 /\ o.errk \in BareKinds /\ o.ek[m] = o.errk)
ErrAmong(o, S) == \E m \in S : IsErrOf(o, m)

(* "All fails exactly when some member fails, Most when more than half    *)
(*  fail, Any when all fail" -- B is the set of failed members.           *)
FailsWith(o, B) == CASE o.strat = "All"  -> B # {}
                     [] o.strat = "Most" -> 2 * Cardinality(B) > o.n
                     [] o.strat = "Any"  -> Cardinality(B) = o.n
                     [] OTHER -> FALSE
(* Not settled by the text, hence not asserted either way: "Any" with no  *)
(* member ("fails when all fail": all of none fail, but there is also no  *)
(* failure to report), and what One/Fast/Race return for no member (only  *)
(* "never panics" and the goroutine clause apply to them).                *)
Settled(o) == ~(o.strat = "Any" /\ o.n = 0)

(* Members of S that may have been the first of S to be observed.          *)
FirstIn(o, S) == LET K == {k \in 1..Len(o.obs) : Range(o.obs[k].all) \cap S # {}} IN
                 IF K = {} THEN {}
                 ELSE LET b == o.obs[Min(K)] IN IF b.lead \in S THEN {b.lead} ELSE Range(b.all) \cap S

SliceVisible(o)  == o.api = "Execute" \/ (o.api = "Direct" /\ o.strat \in UpTo)
WinnerVisible(o) == o.api \in {"Direct", "Execute"}
Placed(o) == {m \in 1..o.resLen : o.res[m] # 0}
\* the single result: as returned (Direct) or as placed in the slice (Execute)
Idx(o) == IF o.api = "Direct" THEN o.idx
          ELSE IF Cardinality(Placed(o)) = 1 THEN CHOOSE m \in Placed(o) : TRUE ELSE 0
Msg(o) == IF o.api = "Direct" THEN o.msg ELSE IF Idx(o) # 0 THEN o.res[Idx(o)] ELSE 0

(* "results are reported at the member's own index" *)
SliceFails(o) ==
  IF ~SliceVisible(o) THEN {} ELSE
  If(o.resLen = o.n, "result-length")
  \cup If(\A m \in 1..o.resLen : o.res[m] \in {0, m}, "own-index")
  \* every successful member's message is there when the call succeeds (for an erring call the
  \* text promises no results, so only "nothing at a foreign index" is required of it)
  \cup If(o.strat \in UpTo /\ o.resLen = o.n /\ o.err = -1 => \A m \in Ok(o) : o.res[m] = m, "result-missing")

UpToFails(o) ==
  If(Settled(o) => ((o.err # -1) = FailsWith(o, Bad(o))), "err-iff")
  \* "the error returned is the first one observed"
  \cup If(o.err # -1 /\ Bad(o) # {} => ErrAmong(o, FirstIn(o, Bad(o))), "first-error")

OneFails(o) ==
  LET upto == IF Ok(o) = {} THEN o.n ELSE Min(Ok(o))
      tried == {m \in Members(o) : o.ran[m]}
      j == Cardinality(tried)
  IN
  \* "tries members in order until one succeeds": whatever kind of error the failed ones returned.
  \* Only the group's own context ending may cut the sequence short: stopping after member j < upto
  \* is accepted only if the caller's context had ended by the time member j returned.
  If(tried = 1..j /\ (j = upto \/ (j >= 1 /\ j < upto /\ o.cc # 0 /\ BatchOf(o, j) >= o.cc)), "one-order")
  \cup If((o.err # -1) = (Ok(o) = {}), "err-iff")
  \cup If(Ok(o) = {} /\ o.err # -1 => IsErrOf(o, 1), "first-error")
  \cup If(WinnerVisible(o) /\ Ok(o) # {} /\ o.err = -1 => Idx(o) = Min(Ok(o)) /\ Msg(o) = Min(Ok(o)), "winner")

FastFails(o) ==
  \* "returns the first success and errs only if every member fails"
  If((o.err # -1) = (Ok(o) = {}), "err-iff")
  \cup If(Ok(o) = {} /\ o.err # -1 => ErrAmong(o, FirstIn(o, Bad(o))), "first-error")
  \cup If(WinnerVisible(o) /\ Ok(o) # {} /\ o.err = -1 => Idx(o) \in FirstIn(o, Ok(o)) /\ Msg(o) = Idx(o), "winner")

RaceFails(o) ==
  \* "returns the first response"
  LET F == FirstIn(o, Came(o)) IN
  If(IF o.err = -1 THEN F \cap Ok(o) # {} ELSE F \cap Bad(o) # {}, "err-iff")
  \cup If(o.err # -1 /\ F \cap Bad(o) # {} => ErrAmong(o, F \cap Bad(o)), "first-error")
  \cup If(WinnerVisible(o) /\ o.err = -1 /\ F \cap Ok(o) # {} => Idx(o) \in F \cap Ok(o) /\ Msg(o) = Idx(o), "winner")

(* What the call returned. *)
CallFails(o) ==
  If(o.panic = "", "panic")
  \cup (IF o.panic # "" THEN {} ELSE
        If(o.returned, "no-return")
        \cup (IF ~o.returned THEN {} ELSE
              SliceFails(o)
              \cup (CASE o.strat \in UpTo -> UpToFails(o)
                      [] o.n = 0 -> {}
                      [] o.strat = "One" -> OneFails(o)
                      [] o.strat = "Fast" -> FastFails(o)
                      [] o.strat = "Race" -> RaceFails(o))))

(* "the remaining members' contexts are cancelled once the outcome is      *)
(*  decided": every member returning in a batch after the deciding one    *)
(*  saw a cancelled context.  Decided = the failure threshold is passed   *)
(*  (All/Most/Any), the first success arrived (Fast), the first response  *)
(*  arrived (Race).  Not asserted: One (the remaining members are never   *)
(*  started, clause "one-order"), and a *successful* outcome of Most/Any  *)
(*  that is certain before the last member returns (the text promises all *)
(*  results at their index, so those members must still be let finish).   *)
SeenUpTo(o, k) == UNION {Range(o.obs[j].all) : j \in 1..k}
DecidedAt(o) ==
  LET K == {k \in 1..Len(o.obs) :
              CASE o.strat \in UpTo   -> o.n > 0 /\ FailsWith(o, Bad(o) \cap SeenUpTo(o, k))
                [] o.strat = "Fast"   -> SeenUpTo(o, k) \cap Ok(o) # {}
                [] o.strat = "Race"   -> SeenUpTo(o, k) # {}
                [] OTHER -> FALSE}
  IN IF K = {} THEN 0 ELSE Min(K)
(* ... and not before.  The text ties the cancellation to the decision    *)
(* ("cancelled once the outcome is decided"), and a cancellation issued   *)
(* while only a tolerated number of members has failed makes cancellation-*)
(* aware members fail, turning an outcome the strategy rule calls a       *)
(* success into an error.  So a member that saw a cancelled context when  *)
(* it returned (batch k) must have a reason that was observable before it *)
(* woke: the caller's context ended (o.cc, at or before batch k), or      *)
(* the members of earlier batches together with the lead of its own batch *)
(* already decide the outcome.  (One hands the caller's context through:  *)
(* only the caller's cancel is a reason.)                                 *)
DecidedBy(o, S) == CASE o.strat \in UpTo   -> o.n > 0 /\ FailsWith(o, Bad(o) \cap S)
                     [] o.strat = "Fast"   -> S \cap Ok(o) # {}
                     [] o.strat = "Race"   -> S \cap Came(o) # {}
                     [] OTHER -> FALSE
Before(o, k, m) == SeenUpTo(o, k - 1)
                   \cup (IF o.obs[k].lead # 0 /\ o.obs[k].lead # m THEN {o.obs[k].lead} ELSE {})
CancelFails(o) ==
  LET d == DecidedAt(o)  cc == o.cc IN
  If(d # 0 => \A k \in (d + 1)..Len(o.obs) : \A m \in Range(o.obs[k].all) : o.seen[m], "not-cancelled")
  \cup If(\A k \in 1..Len(o.obs) : \A m \in Range(o.obs[k].all) :
            o.seen[m] => (cc # 0 /\ k >= cc) \/ DecidedBy(o, Before(o, k, m)), "cancelled-early")

(* "every goroutine it starts ends once its members return" *)
LeakFails(o) == If(o.leak = 0, "goroutines-remain")

ContractFails(o) == CallFails(o) \cup CancelFails(o) \cup LeakFails(o)
=============================================================================
