------------------------------ MODULE RaceOps ------------------------------
(***************************************************************************)
(* The alphabet of the C11 workloads.  One record per operation kind:      *)
(*   k    the name (harness/cmd/racex implements each kind under this name) *)
(*   fam  the family of programs it is drawn for                            *)
(*   objs the shared objects of the program's world it touches              *)
(*   w    whether it writes them (a conflicting pair needs one writer)      *)
(*   m    the access discipline of RaceModel.tla that the call follows      *)
(* RaceGen.tla draws programs from it, RaceTrace.tla judges with it whether *)
(* a program that ran really had two processes in conflict on one object.   *)
(*                                                                         *)
(* A program's world holds 1..3 INSTANCES of every type; each process works *)
(* on one instance (on[p]).  Instances 2 and 3 are built with no options at *)
(* all, i.e. from the package-level defaults only: whatever a default holds *)
(* by reference (an initial message, a random source, a comparer, a table)  *)
(* is shared between instances.  objs doubles as the tag of the type whose  *)
(* package-level defaults an operation goes through: two processes on       *)
(* DIFFERENT instances of one type meet on those defaults (SharedDefaultPair).*)
(***************************************************************************)
EXTENDS Integers, Sequences, FiniteSets

Op(k, fam, objs, w, m) == [k |-> k, fam |-> fam, objs |-> objs, w |-> w, m |-> m]

OpTable == {
  \* resource.Value
  Op("v.get", "val", {"val"}, FALSE, "VGet"),          Op("v.getmask", "val", {"val"}, FALSE, "VGet"),
  Op("v.set", "val", {"val"}, TRUE, "VSet"),           Op("v.setmask", "val", {"val"}, TRUE, "VSet"),
  Op("v.cas", "val", {"val"}, TRUE, "VSet"),           Op("v.check", "val", {"val"}, TRUE, "VSet"),
  Op("v.pull", "val", {"val"}, FALSE, "VPull"),        Op("v.pulllossy", "val", {"val"}, FALSE, "VPull"),
  Op("v.pullupd", "val", {"val"}, FALSE, "VPull"),     Op("v.pullcancel", "val", {"val"}, FALSE, "VPull"),
  \* resource.Collection
  Op("c.get", "coll", {"coll"}, FALSE, "CGet"),        Op("c.list", "coll", {"coll"}, FALSE, "CGet"),
  Op("c.add", "coll", {"coll"}, TRUE, "CSet"),         Op("c.gen", "coll", {"coll"}, TRUE, "CGen"),
  Op("c.upsert", "coll", {"coll"}, TRUE, "CSet"),      Op("c.upd", "coll", {"coll"}, TRUE, "CSet"),
  Op("c.del", "coll", {"coll"}, TRUE, "CDel"),         Op("c.pull", "coll", {"coll"}, FALSE, "CPull"),
  Op("c.pulllossy", "coll", {"coll"}, FALSE, "CPull"), Op("c.pullcancel", "coll", {"coll"}, FALSE, "CPull"),
  Op("c.pullid", "coll", {"coll"}, FALSE, "CPull"),
  \* minibus.Bus
  Op("b.send", "bus", {"bus"}, TRUE, "BSend"),         Op("b.sendmany", "bus", {"bus"}, TRUE, "BSend"),
  Op("b.listen", "bus", {"bus"}, TRUE, "BListen"),     Op("b.listen1", "bus", {"bus"}, TRUE, "BListen"),
  Op("b.cancel", "bus", {"bus"}, TRUE, "BListen"),
  \* router.Router through the generated OnOff router
  Op("r.add", "rtr", {"rtr"}, TRUE, "RAdd"),           Op("r.rem", "rtr", {"rtr"}, TRUE, "RRemove"),
  Op("r.has", "rtr", {"rtr"}, FALSE, "RHas"),          Op("r.get", "rtr", {"rtr"}, TRUE, "RGet"),
  Op("r.call", "rtr", {"rtr"}, TRUE, "RGet"),          Op("r.upd", "rtr", {"rtr"}, TRUE, "RGet"),
  Op("r.pull", "rtr", {"rtr"}, TRUE, "RGet"),
  \* wrapped clients (wrap.ServerToClient): every call has its own stream; the shared object is the server's model
  Op("w.get", "wrap", {"wrap"}, FALSE, "Stream"),      Op("w.upd", "wrap", {"wrap"}, TRUE, "Stream"),
  Op("w.pull", "wrap", {"wrap"}, FALSE, "Stream"),     Op("w.pulllazy", "wrap", {"wrap"}, FALSE, "Stream"),
  Op("w.pullend", "wrap", {"wrap"}, FALSE, "Stream"),  Op("w.pullcancel", "wrap", {"wrap"}, FALSE, "StreamCancel"),
  Op("w.precancel", "wrap", {"wrap"}, FALSE, "StreamCancel"),
  \* the handler keeps adding header/trailer metadata (also after the headers were sent) while the client keeps looking
  \* at Header()/Trailer(), or ends a unary call early so that wrap's collectMetadata reads it: unary, server stream, bidi
  Op("w.mdunary", "wrap", {"wrap"}, FALSE, "StreamLateMD"), Op("w.mdstream", "wrap", {"wrap"}, FALSE, "StreamLateMD"),
  Op("w.mdbidi", "wrap", {"wrap"}, FALSE, "StreamLateMD"),
  \* group.Execute: members call the wrapped client and a Value
  Op("g.all", "grp", {"wrap", "val"}, TRUE, "Group"),  Op("g.most", "grp", {"wrap", "val"}, TRUE, "Group"),
  Op("g.any", "grp", {"wrap", "val"}, TRUE, "Group"),  Op("g.one", "grp", {"wrap", "val"}, TRUE, "Group"),
  Op("g.fast", "grp", {"wrap", "val"}, TRUE, "Group"), Op("g.race", "grp", {"wrap", "val"}, TRUE, "Group"),
  \* electricpb.Model (a Value for demand, a Value for the active mode, a Collection of modes, a model mutex)
  Op("e.demand", "el", {"el"}, FALSE, "VGet"),         Op("e.upddemand", "el", {"el"}, TRUE, "VSet"),
  Op("e.active", "el", {"el"}, FALSE, "VGet"),         Op("e.modes", "el", {"el"}, FALSE, "CGet"),
  Op("e.find", "el", {"el"}, FALSE, "CGet"),           Op("e.create", "el", {"el"}, TRUE, "CGen"),
  Op("e.add", "el", {"el"}, TRUE, "CSet"),             Op("e.update", "el", {"el"}, TRUE, "CSet"),
  Op("e.delete", "el", {"el"}, TRUE, "CDel"),          Op("e.change", "el", {"el"}, TRUE, "VSet"),
  Op("e.normal", "el", {"el"}, TRUE, "VSet"),          Op("e.pulldemand", "el", {"el"}, FALSE, "VPull"),
  Op("e.pullactive", "el", {"el"}, FALSE, "VPull"),    Op("e.pullmodes", "el", {"el"}, FALSE, "CPull"),
  \* parentpb.Model
  Op("p.add", "par", {"par"}, TRUE, "CSet"),           Op("p.addtrait", "par", {"par"}, TRUE, "CSet"),
  Op("p.remtrait", "par", {"par"}, TRUE, "CSet"),      Op("p.remove", "par", {"par"}, TRUE, "CDel"),
  Op("p.list", "par", {"par"}, FALSE, "CGet"),         Op("p.pull", "par", {"par"}, FALSE, "CPull"),
  \* metadatapb.Model
  Op("m.get", "md", {"md"}, FALSE, "VGet"),            Op("m.update", "md", {"md"}, TRUE, "VSet"),
  Op("m.merge", "md", {"md"}, TRUE, "VSet"),           Op("m.trait", "md", {"md"}, TRUE, "VSet"),
  Op("m.pull", "md", {"md"}, FALSE, "VPull"),
  \* hailpb, bookingpb, publicationpb models (generated ids without a model mutex)
  Op("h.create", "hail", {"hail"}, TRUE, "CGen"),      Op("h.list", "hail", {"hail"}, FALSE, "CGet"),
  Op("h.update", "hail", {"hail"}, TRUE, "CSet"),      Op("h.delete", "hail", {"hail"}, TRUE, "CDel"),
  Op("h.pull", "hail", {"hail"}, FALSE, "CPull"),
  Op("k.create", "book", {"book"}, TRUE, "CGen"),      Op("k.list", "book", {"book"}, FALSE, "CGet"),
  Op("k.update", "book", {"book"}, TRUE, "CSet"),      Op("k.pull", "book", {"book"}, FALSE, "CPull"),
  Op("u.create", "pub", {"pub"}, TRUE, "CGen"),        Op("u.get", "pub", {"pub"}, FALSE, "CGet"),
  Op("u.list", "pub", {"pub"}, FALSE, "CGet"),         Op("u.update", "pub", {"pub"}, TRUE, "CSet"),
  Op("u.delete", "pub", {"pub"}, TRUE, "CDel"),        Op("u.pull", "pub", {"pub"}, FALSE, "CPull"),
  \* package-level helpers and variables called from several goroutines (no instance; "w" here = builds on or goes
  \* through package-level state that the call must not write: DefaultTweenOptions, DefaultFieldUpdateOptions,
  \* modepb.DefaultModes, unitpb.siUnits, the pkg/time cut singletons, comparers held by a package-level variable)
  Op("x.convert", "pkg", {"pkgvars"}, TRUE, "PkgDefault"),  Op("x.period", "pkg", {"pkgvars"}, TRUE, "PkgDefault"),
  Op("x.segment", "pkg", {"pkgvars"}, TRUE, "PkgDefault"),  Op("x.cmp", "pkg", {"pkgvars"}, TRUE, "PkgDefault"),
  Op("x.tween", "pkg", {"pkgvars"}, TRUE, "PkgDefault"),    Op("x.masks", "pkg", {"pkgvars"}, TRUE, "PkgDefault"),
  Op("x.name", "pkg", {"pkgvars"}, TRUE, "PkgDefault"),     Op("x.modes", "pkg", {"pkgvars"}, TRUE, "PkgDefault"),
  Op("x.genid", "pkg", {"pkgvars"}, TRUE, "PkgDefault"),    Op("x.newmodels", "pkg", {"pkgvars"}, TRUE, "PkgDefault"),
  \* server.InfoServer (device registry)
  Op("i.add", "pkg", {"info"}, TRUE, "RAdd"),          Op("i.rem", "pkg", {"info"}, TRUE, "RRemove"),
  Op("i.list", "pkg", {"info"}, FALSE, "RHas"),
  \* OPTION VALUES shared between calls: one kit of write/read/resource/router options and request messages is built
  \* once per program and used by every process on every instance (the way a caller keeps a package-level
  \* `var onlyCurrent = resource.WithUpdatePaths("current")`).  The library may read an option value and the mask or
  \* message inside it, never write it.  The tag opt.* in objs says which shared option values the call is given:
  \* two processes with a common tag share them even on different instances and different types.  ("w" for the
  \* read-option kinds: the call goes through option values the library must not write.)
  Op("v.setshared", "val", {"val", "opt.write"}, TRUE, "OptWrite"),    Op("v.resetshared", "val", {"val", "opt.write"}, TRUE, "OptWrite"),
  Op("v.casshared", "val", {"val", "opt.write"}, TRUE, "OptWrite"),    Op("v.getshared", "val", {"val", "opt.read"}, FALSE, "OptRead"),
  Op("v.pullshared", "val", {"val", "opt.read"}, FALSE, "OptRead"),
  Op("c.updshared", "coll", {"coll", "opt.write"}, TRUE, "OptWrite"),  Op("c.resetshared", "coll", {"coll", "opt.write"}, TRUE, "OptWrite"),
  Op("c.delshared", "coll", {"coll", "opt.write"}, TRUE, "OptWrite"),  Op("c.listshared", "coll", {"coll", "opt.read"}, FALSE, "OptRead"),
  Op("c.pullshared", "coll", {"coll", "opt.read"}, FALSE, "OptRead"),
  Op("e.updshared", "el", {"el", "opt.model"}, TRUE, "OptWrite"),      Op("m.updshared", "md", {"md", "opt.model"}, TRUE, "OptWrite"),
  Op("h.updshared", "hail", {"hail", "opt.model"}, TRUE, "OptWrite"),  Op("k.updshared", "book", {"book", "opt.model"}, TRUE, "OptWrite"),
  Op("u.updshared", "pub", {"pub", "opt.model"}, TRUE, "OptWrite"),
  Op("w.callshared", "wrap", {"wrap", "opt.req"}, TRUE, "OptRead"),    Op("w.pullshared", "wrap", {"wrap", "opt.req"}, FALSE, "OptRead"),
  Op("r.callshared", "rtr", {"rtr", "opt.req"}, TRUE, "OptRead"),
  \* new objects built from the shared resource / router / model option values by several goroutines at once
  Op("o.newval", "opt", {"opt.write", "opt.read", "opt.res"}, TRUE, "OptRes"),
  Op("o.newcoll", "opt", {"opt.write", "opt.read", "opt.res"}, TRUE, "OptRes"),
  Op("o.newrtr", "opt", {"opt.res", "opt.req"}, TRUE, "OptRes"),
  Op("o.newmodel", "opt", {"opt.res", "opt.model"}, TRUE, "OptRes")
}
\* the "dflt" family: trait models constructed with NO options (package default options only), one type per program
DefaultModels == { "onoff", "light", "fanspeed", "mode", "enterleave", "airtemp", "airquality", "energy", "occupancy",
                   "openclose", "meter", "access", "press", "vending", "waste", "metadata" }
DefaultOps == UNION { { Op("d." \o t \o ".get", "dflt", {"d." \o t}, FALSE, "VGet"),
                        Op("d." \o t \o ".upd", "dflt", {"d." \o t}, TRUE, "VSet"),
                        Op("d." \o t \o ".pull", "dflt", {"d." \o t}, FALSE, "VPull") } : t \in DefaultModels }
AllOps == OpTable \cup DefaultOps

OptTags == { "opt.write", "opt.read", "opt.model", "opt.req", "opt.res" }
Kinds == { o.k : o \in AllOps }
Kind(k) == CHOOSE o \in AllOps : o.k = k

Families == << "val", "coll", "bus", "rtr", "wrap", "grp", "el", "par", "md", "hail", "book", "pub", "mixed", "dflt", "pkg", "dflt", "opt", "opt" >>

\* the kinds a program of family f is drawn from; "grp" programs mix group executions with direct use of the
\* objects the members call; "mixed" programs draw from everything
FamilyKinds(f) ==
  CASE f = "grp"   -> { o.k : o \in { x \in OpTable : x.fam = "grp" } } \cup { "w.upd", "w.get", "w.pull", "v.set", "v.get", "v.pull" }
    [] f = "mixed" -> { o.k : o \in OpTable }
    \* "opt" programs: every kind that is given shared option values, on Values, Collections, models, wrapped clients
    [] f = "opt"   -> { o.k : o \in { x \in OpTable : \E t \in x.objs : t \in OptTags } }
    [] OTHER       -> { o.k : o \in { x \in AllOps : x.fam = f } }
\* a "dflt" program uses one model type
TypeKinds(t) == { o.k : o \in { x \in DefaultOps : x.objs = {"d." \o t} } }
FamilyWriters(f) == { k \in FamilyKinds(f) : Kind(k).w }

KnownKinds(procs) == \A p \in 1..Len(procs) : \A j \in 1..Len(procs[p]) : procs[p][j] \in Kinds
\* Processes p and q have operations on one type of object and p writes it.
Meet(procs, p, q) ==
  \E i \in 1..Len(procs[p]), j \in 1..Len(procs[q]) :
    Kind(procs[p][i]).w /\ Kind(procs[p][i]).objs \cap Kind(procs[q][j]).objs # {}
\* Two different processes on the SAME instance have operations on one object and one of them writes it.  The
\* processes of a program are released together and never synchronised by the harness, so such a pair is concurrent
\* in the sense of the Go memory model unless the library orders it.
ConflictPair(procs, on) ==
  \E p, q \in 1..Len(procs) : p # q /\ on[p] = on[q] /\ Meet(procs, p, q)
\* Two processes on DIFFERENT instances of one type, one of them writing: they share nothing but what the type's
\* package-level defaults hold.
SharedDefaultPair(procs, on) ==
  \E p, q \in 1..Len(procs) : on[p] # on[q] /\ Meet(procs, p, q)
\* Two different processes (any instances) are given the same shared option values.
SharedOptionPair(procs) ==
  \E p, q \in 1..Len(procs) : p # q /\
    \E i \in 1..Len(procs[p]), j \in 1..Len(procs[q]) :
      Kind(procs[p][i]).objs \cap Kind(procs[q][j]).objs \cap OptTags # {}
\* what a program must exercise to count
NonVacuous(procs, on, inst) ==
  /\ KnownKinds(procs) /\ Len(on) = Len(procs) /\ \A p \in 1..Len(on) : on[p] \in 1..inst
  /\ IF inst = 1 THEN ConflictPair(procs, on) ELSE SharedDefaultPair(procs, on)

\* the access disciplines of RaceModel.tla a program exercises
DisciplinesAll(procs) == UNION { { Kind(procs[p][i]).m : i \in 1..Len(procs[p]) } : p \in 1..Len(procs) }
=============================================================================
