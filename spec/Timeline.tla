---------------------------- MODULE Timeline ----------------------------
(***************************************************************************)
(* C18: the timeline algebra of pkg/time (periods, timestamp comparison)   *)
(* and of electricpb/segmentpb + electricpb/modepb (segment lists read as  *)
(* step functions of time).  Three uses:                                   *)
(*   MC   (TimelineMC.cfg)   the laws, on the reference operators defined   *)
(*                           here, exhaustively over small domains         *)
(*   Gen  (TimelineGen.cfg)  inputs printed as CASE lines for the harness   *)
(*   Trace (TimelineTrace.tla) the same laws evaluated on what the real    *)
(*                           code returned                                  *)
(*                                                                         *)
(* Numbers.  TLC integers are 32 bit, so a timestamp is the record         *)
(* [s |-> seconds, n |-> nanos] ordered lexicographically, never           *)
(* s*10^9+n.  Segment time is counted in ticks of half a unit length       *)
(* (1 tick = 500 ms in the harness; generated lengths are whole units =    *)
(* even tick counts, so every breakpoint is even and every midpoint odd);  *)
(* a step function whose breakpoints are whole ticks is determined by its  *)
(* values at the whole ticks, which is how two segmentations are compared. *)
(***************************************************************************)
EXTENDS Integers, Sequences, FiniteSets, TLC, Json

CONSTANTS NCases,      \* Gen: number of random cases of each kind
          Scope        \* MC / Gen: 1 = quick domain, 2 = thorough domain

VARIABLE c             \* the case under consideration

Max2(a, b) == IF a >= b THEN a ELSE b
Min2(a, b) == IF a <= b THEN a ELSE b
SetMax(S) == CHOOSE x \in S : \A y \in S : y <= x
SetMin(S) == CHOOSE x \in S : \A y \in S : x <= y
RECURSIVE SortedSeq(_)
SortedSeq(S) == IF S = {} THEN <<>> ELSE LET x == SetMin(S) IN <<x>> \o SortedSeq(S \ {x})

----------------------------------------------------------------------------
(* 1. Timestamps and periods                                               *)

TsLt(a, b) == a.s < b.s \/ (a.s = b.s /\ a.n < b.n)
TsEq(a, b) == a.s = b.s /\ a.n = b.n
TsLe(a, b) == TsLt(a, b) \/ TsEq(a, b)
\* the documented result of CompareAscending: chronological order as -1, 0, 1
Cmp(a, b) == IF TsLt(a, b) THEN -1 ELSE IF TsLt(b, a) THEN 1 ELSE 0

\* endpoint = [has |-> BOOLEAN, t |-> timestamp]; has = FALSE means unbounded
\* period   = [s |-> endpoint, e |-> endpoint], the half-open interval [s, e)
WellFormed(p) == (p.s.has /\ p.e.has) => TsLt(p.s.t, p.e.t)
In(x, p)       == (p.s.has => TsLe(p.s.t, x)) /\ (p.e.has => TsLt(x, p.e.t))
InClosed(x, p) == (p.s.has => TsLe(p.s.t, x)) /\ (p.e.has => TsLe(x, p.e.t))
\* the meaning: some instant (of the set I) lies in both intervals / in both closures
OverlapOn(I, p, q)        == \E x \in I : In(x, p) /\ In(x, q)
OverlapOrTouchOn(I, p, q) == \E x \in I : InClosed(x, p) /\ InClosed(x, q)
\* Point oracle: if two intervals share an instant they share the later of
\* their start instants, or - both unbounded below - any instant below every
\* endpoint.  All generated timestamps have s >= 0, so BelowAll is below them.
BelowAll == [s |-> -1, n |-> 0]
Witnesses(p, q) == {BelowAll} \cup (IF p.s.has THEN {p.s.t} ELSE {}) \cup (IF q.s.has THEN {q.s.t} ELSE {})
Overlap(p, q)        == OverlapOn(Witnesses(p, q), p, q)
OverlapOrTouch(p, q) == OverlapOrTouchOn(Witnesses(p, q), p, q)

\* The algorithm of pkg/time as a design: Guava-style cuts and two comparisons.
\* cut = [k |-> 0 (below all) | 1 (just below t) | 2 (above all), t |-> timestamp]
LowerCut(p) == IF p.s.has THEN [k |-> 1, t |-> p.s.t] ELSE [k |-> 0, t |-> BelowAll]
UpperCut(p) == IF p.e.has THEN [k |-> 1, t |-> p.e.t] ELSE [k |-> 2, t |-> BelowAll]
CutCmp(x, y) == IF x.k # y.k THEN (IF x.k < y.k THEN -1 ELSE 1)
                ELSE IF x.k = 1 THEN Cmp(x.t, y.t) ELSE 0
IntersectAlg(p, q) == CutCmp(LowerCut(p), UpperCut(q)) < 0 /\ CutCmp(LowerCut(q), UpperCut(p)) < 0
ConnectedAlg(p, q) == CutCmp(LowerCut(p), UpperCut(q)) <= 0 /\ CutCmp(LowerCut(q), UpperCut(p)) <= 0

----------------------------------------------------------------------------
(* 2. Segment lists as step functions                                      *)
(* segment = [m |-> magnitude, inf |-> BOOLEAN, len |-> ticks]; inf = the  *)
(* nil length "extends forever" (len is 0 then).  A list is read from time *)
(* 0; the first infinite segment ends the list.                            *)

RECURSIVE Pre(_, _)
Pre(l, i) == IF i <= 1 THEN 0 ELSE Pre(l, i - 1) + l[i - 1].len           \* start tick of segment i
NoInfBefore(l, i) == \A j \in 1..(i - 1) : ~l[j].inf
Covers(l, i, t) == /\ NoInfBefore(l, i)
                   /\ Pre(l, i) <= t
                   /\ (l[i].inf \/ t < Pre(l, i) + l[i].len)
Active(l, t) == \E i \in DOMAIN l : Covers(l, i, t)
Idx(l, t)    == CHOOSE i \in DOMAIN l : Covers(l, i, t)
\* the step function denoted by l: 0 outside any segment
Mag(l, t) == IF Active(l, t) THEN l[Idx(l, t)].m ELSE 0

Infinite(l) == \E i \in DOMAIN l : l[i].inf
FirstInf(l) == SetMin({i \in DOMAIN l : l[i].inf})
\* total length of the finite segments before the first infinite one
Total(l) == IF Infinite(l) THEN Pre(l, FirstInf(l)) ELSE Pre(l, Len(l) + 1)
\* last tick at which the function can change (all lengths counted: used only as a sampling horizon)
Horizon(l) == Pre(l, Len(l) + 1)
WellFormedList(l) == \A i \in DOMAIN l : (l[i].inf => i = Len(l)) /\ l[i].len >= 0 /\ (l[i].inf => l[i].len = 0)

\* ---- reference results of the read operations (indexes 0-based as in Go)
\* ActiveAt, as documented: d < 0 -> (d, 0); after all segments -> (total, len)
ActiveAtRef(l, d) ==
  IF d < 0 THEN [el |-> d, idx |-> 0]
  ELSE IF Active(l, d) THEN [el |-> Pre(l, Idx(l, d)), idx |-> Idx(l, d) - 1]
  ELSE [el |-> Total(l), idx |-> Len(l)]
MagnitudeAtRef(l, d) == [m |-> Mag(l, d), ok |-> Active(l, d)]
DurationRef(l) == [total |-> Total(l), inf |-> Infinite(l)]
\* segments that occupy time: non-zero length and not hidden behind an infinite one
Occupying(l) == {i \in DOMAIN l : NoInfBefore(l, i) /\ (l[i].inf \/ l[i].len > 0)}
\* ... at or after tick d (the segment active at d included)
OccupyingFrom(l, d) == {i \in Occupying(l) : l[i].inf \/ Pre(l, i) + l[i].len > d}
\* r (0-based) is an index of a largest-magnitude segment among S, or Len(l) if S is empty
IsArgMax(l, S, r) == IF S = {} THEN r = Len(l)
                     ELSE (r + 1) \in S /\ \A j \in S : l[j].m <= l[r + 1].m
MaxMagRef(l) == IF Occupying(l) = {} THEN 0 ELSE SetMax({l[i].m : i \in Occupying(l)})

\* ---- reference constructions
Seg(m, len) == [m |-> m, inf |-> FALSE, len |-> len]
InfSeg(m)   == [m |-> m, inf |-> TRUE, len |-> 0]
\* the part of l before tick k / from tick k on (re-based to 0)
RECURSIVE Take(_, _)
Take(k, l) == IF l = <<>> \/ k <= 0 THEN <<>>
              ELSE IF Head(l).inf \/ Head(l).len > k THEN <<Seg(Head(l).m, k)>>
              ELSE <<Head(l)>> \o Take(k - Head(l).len, Tail(l))
RECURSIVE Drop(_, _)
Drop(k, l) == IF l = <<>> THEN <<>>
              ELSE IF k <= 0 \/ Head(l).inf THEN l
              ELSE IF Head(l).len > k THEN <<Seg(Head(l).m, Head(l).len - k)>> \o Tail(l)
              ELSE Drop(k - Head(l).len, Tail(l))
ShiftRef(d, l) == IF d = 0 THEN l ELSE IF d > 0 THEN <<Seg(0, d)>> \o l ELSE Drop(-d, l)
CutSegRef(d, s) == [b |-> Take(d, <<s>>), a |-> Drop(d, <<s>>)]
RECURSIVE SumAt(_, _)
SumAt(ls, t) == IF ls = <<>> THEN 0 ELSE Mag(Head(ls), t) + SumAt(Tail(ls), t)
Breaks(l) == {Pre(l, i) : i \in 1..(Len(l) + 1)}
SumRef(ls) ==
  LET bs == SortedSeq({0} \cup UNION {Breaks(ls[i]) : i \in DOMAIN ls})
      fin == [j \in 1..(Len(bs) - 1) |-> Seg(SumAt(ls, bs[j]), bs[j + 1] - bs[j])]
  IN IF \E i \in DOMAIN ls : Infinite(ls[i]) THEN fin \o <<InfSeg(SumAt(ls, bs[Len(bs)]))>> ELSE fin

\* ---- modes: [has |-> BOOLEAN, st |-> start tick (absolute), segs |-> list]
\* A mode without a start time is read relative to a reference instant ref
\* (the operations use "the time asked about" / "the latest start time").
StartOf(m, ref) == IF m.has THEN m.st ELSE ref
AbsMag(m, T, ref) == Mag(m.segs, T - StartOf(m, ref))
AbsActive(m, T, ref) == Active(m.segs, T - StartOf(m, ref))
NoMode == [nil |-> TRUE, has |-> FALSE, st |-> 0, segs |-> <<>>]     \* the nil result: the zero function
ModeShiftRef(d, m) == IF m.has THEN [m EXCEPT !.st = @ + d] ELSE [m EXCEPT !.segs = ShiftRef(d, @)]
ModeCutRef(T, m) ==
  LET d == T - StartOf(m, T) IN
  [b |-> [has |-> m.has, st |-> m.st, segs |-> Take(d, m.segs)],
   a |-> IF d <= 0 THEN m ELSE [has |-> TRUE, st |-> T, segs |-> Drop(d, m.segs)]]
Starts(ms) == {ms[i].st : i \in {j \in DOMAIN ms : ms[j].has}}
ModeSumRef(ms) ==
  IF Starts(ms) = {} THEN [has |-> FALSE, st |-> 0, segs |-> SumRef([i \in DOMAIN ms |-> ms[i].segs])]
  ELSE LET e == SetMin(Starts(ms))  la == SetMax(Starts(ms)) IN
       [has |-> TRUE, st |-> e,
        segs |-> SumRef([i \in DOMAIN ms |-> ShiftRef(StartOf(ms[i], la) - e, ms[i].segs)])]
RECURSIVE AbsSumAt(_, _, _)
AbsSumAt(ms, T, ref) == IF ms = <<>> THEN 0 ELSE AbsMag(Head(ms), T, ref) + AbsSumAt(Tail(ms), T, ref)

----------------------------------------------------------------------------
(* 3. The laws (the property, stated once; MC applies them to the          *)
(* reference constructions, TimelineTrace to the outputs of the real code) *)

\* g is f translated by d (a list starts at 0: what would move below 0 is cut off)
IsShiftOf(g, f, d, W)  == \A t \in W : Mag(g, t) = (IF t >= 0 THEN Mag(f, t - d) ELSE 0)
\* (b, a) is f split at d: b is f before d, a is f from d on re-based to 0
IsCutOf(b, a, f, d, W) ==
  \A t \in W : /\ Mag(b, t) = (IF t < d THEN Mag(f, t) ELSE 0)
               /\ Mag(a, t) = (IF t >= 0 THEN Mag(f, t + Max2(d, 0)) ELSE 0)
IsSumOf(g, ls, W)      == \A t \in W : Mag(g, t) = SumAt(ls, t)
\* mode versions, in absolute ticks
\* (a mode without a start time is a bare list: its shift is the list shift)
IsModeShiftOf(g, m, d, W)   == IF m.has THEN \A T \in W : AbsMag(g, T, 0) = AbsMag(m, T - d, 0)
                               ELSE IsShiftOf(g.segs, m.segs, d, W)
IsModeCutOf(b, a, m, T0, W) ==
  \A T \in W : /\ AbsMag(b, T, T0) = (IF T < T0 THEN AbsMag(m, T, T0) ELSE 0)
               /\ AbsMag(a, T, T0) = (IF T >= T0 THEN AbsMag(m, T, T0) ELSE 0)
IsModeSumOf(g, ms, ref, W)  == \A T \in W : AbsMag(g, T, ref) = AbsSumAt(ms, T, ref)

----------------------------------------------------------------------------
(* 4. MC: small exhaustive domains                                         *)
MCMags == 0..2
MCLens == IF Scope >= 2 THEN {0, 2, 4} ELSE {0, 2}
MCFin  == {Seg(m, n) : m \in MCMags, n \in MCLens}
MCInf  == {InfSeg(m) : m \in MCMags}
MCLast == MCFin \cup MCInf
ListsUpTo(k) == {<<>>} \cup UNION { {f \o <<x>> : f \in [1..(j - 1) -> MCFin], x \in MCLast} : j \in 1..k }
MCLists  == ListsUpTo(IF Scope >= 2 THEN 3 ELSE 2)        \* unary laws, first operand of Sum
MCLists2 == ListsUpTo(2)                                  \* second operand of Sum
MCLists3 == {<<>>, <<Seg(1, 2)>>, <<Seg(0, 2), InfSeg(2)>>, <<Seg(2, 0), Seg(1, 4), Seg(0, 2)>>}
MCTs      == {[s |-> s, n |-> n] : s \in 0..2, n \in {0, 1}}
MCInstants == {[s |-> s, n |-> n] : s \in -1..3, n \in {0, 1}}
MCEnds    == {[has |-> FALSE, t |-> [s |-> 0, n |-> 0]]} \cup {[has |-> TRUE, t |-> t] : t \in MCTs}
MCPeriods == {[s |-> a, e |-> b] : a \in MCEnds, b \in MCEnds}
MCModeLists == ListsUpTo(IF Scope >= 2 THEN 2 ELSE 1)
MCModes   == {[has |-> FALSE, st |-> 0, segs |-> l] : l \in MCModeLists}
             \cup {[has |-> TRUE, st |-> s, segs |-> l] : s \in {0, 1, 4}, l \in MCModeLists}

\* two stages so that TLC's workers share the enumeration
MCInit == \/ c \in [kind : {"list"}, st : {0}, l : MCLists, l2 : {<<>>}, l3 : {<<>>}]
          \/ c \in [kind : {"per"}, p : MCPeriods, q : MCPeriods]
          \/ c \in [kind : {"ts"}, a : MCTs, b : MCTs, d : MCTs]
          \/ c \in [kind : {"mode"}, st : {0}, m : MCModes, m2 : {NoMode}]
MCNext == \/ /\ c.kind = "list" /\ c.st = 0
             /\ c' \in [kind : {"list"}, st : {1}, l : {c.l}, l2 : MCLists2, l3 : MCLists3]
          \/ /\ c.kind = "mode" /\ c.st = 0
             /\ c' \in [kind : {"mode"}, st : {1}, m : {c.m}, m2 : MCModes]

Win(h) == (-3)..(h + 3)

LawPeriods ==
  c.kind = "per" /\ WellFormed(c.p) /\ WellFormed(c.q) =>
    /\ Overlap(c.p, c.q) = OverlapOn(MCInstants, c.p, c.q)                   \* the point oracle is exact
    /\ OverlapOrTouch(c.p, c.q) = OverlapOrTouchOn(MCInstants, c.p, c.q)
    /\ Overlap(c.p, c.q) = Overlap(c.q, c.p)
    /\ OverlapOrTouch(c.p, c.q) = OverlapOrTouch(c.q, c.p)
    /\ (Overlap(c.p, c.q) => OverlapOrTouch(c.p, c.q))
    /\ IntersectAlg(c.p, c.q) = Overlap(c.p, c.q)                            \* the cut design is right
    /\ ConnectedAlg(c.p, c.q) = OverlapOrTouch(c.p, c.q)
LawCompare ==
  c.kind = "ts" =>
    /\ Cmp(c.a, c.b) \in {-1, 0, 1}
    /\ Cmp(c.a, c.b) = -Cmp(c.b, c.a)
    /\ (Cmp(c.a, c.b) = 0) = (c.a = c.b)
    /\ (Cmp(c.a, c.b) <= 0 /\ Cmp(c.b, c.d) <= 0 => Cmp(c.a, c.d) <= 0)
LawRead ==
  c.kind = "list" /\ c.st = 0 =>
    LET l == c.l IN
    /\ WellFormedList(l)
    /\ \A t \in Win(Horizon(l)) :
         /\ Cardinality({i \in DOMAIN l : Covers(l, i, t)}) <= 1            \* Idx is well defined
         /\ (Active(l, t) = (t >= 0 /\ (Infinite(l) \/ t < Total(l))))      \* the support is [0, total)
         /\ LET r == ActiveAtRef(l, t) IN
              (Active(l, t) => r.idx < Len(l) /\ Covers(l, r.idx + 1, t) /\ r.el = Pre(l, r.idx + 1))
    \* Max is the maximum of the function over its support
    /\ (Occupying(l) # {} =>
          MaxMagRef(l) = SetMax({Mag(l, t) : t \in {u \in Win(Horizon(l)) : Active(l, u)}}))
    /\ (Occupying(l) = {}) = (\A t \in Win(Horizon(l)) : ~Active(l, t))
    /\ \A d \in Win(Horizon(l)) :
         LET S == OccupyingFrom(l, d)  A == {u \in Win(Horizon(l)) : u >= d /\ Active(l, u)} IN
           /\ (S = {}) = (A = {})
           /\ (S # {} => SetMax({l[i].m : i \in S}) = SetMax({Mag(l, u) : u \in A}))
LawShiftCut ==
  c.kind = "list" /\ c.st = 0 =>
    LET l == c.l  W == Win(2 * Horizon(l) + 3) IN
    \A d \in (-(Horizon(l) + 2))..(Horizon(l) + 2) :
      /\ IsShiftOf(ShiftRef(d, l), l, d, W)
      /\ IsCutOf(Take(d, l), Drop(d, l), l, d, W)
      /\ WellFormedList(ShiftRef(d, l)) /\ WellFormedList(Take(d, l)) /\ WellFormedList(Drop(d, l))
      /\ (Len(l) = 1 => LET r == CutSegRef(d, l[1]) IN IsCutOf(r.b, r.a, l, d, W))
LawSum ==
  c.kind = "list" /\ c.st = 1 =>
    LET ls == <<c.l, c.l2, c.l3>>
        W  == Win(Max2(Horizon(c.l), Max2(Horizon(c.l2), Horizon(c.l3)))) IN
    /\ IsSumOf(SumRef(ls), ls, W)
    /\ IsSumOf(SumRef(<<c.l, c.l2>>), <<c.l2, c.l>>, W)
    /\ IsSumOf(SumRef(<<c.l>>), <<c.l>>, W)
    /\ WellFormedList(SumRef(ls))
LawMode ==
  c.kind = "mode" =>
    LET m == c.m  W == (-4)..(Horizon(m.segs) + 12) IN
    /\ c.st = 0 =>
         /\ \A d \in -3..3 : IsModeShiftOf(ModeShiftRef(d, m), m, d, W)
         /\ \A T0 \in W : LET r == ModeCutRef(T0, m) IN IsModeCutOf(r.b, r.a, m, T0, W)
    /\ c.st = 1 =>
         LET ms == <<m, c.m2>>  S == Starts(ms)
             ref == IF S = {} THEN 0 ELSE SetMax(S)
             W2 == (-4)..(Max2(Horizon(m.segs), Horizon(c.m2.segs)) + 12) IN
         /\ IsModeSumOf(ModeSumRef(ms), ms, ref, W2)
         /\ ModeSumRef(ms).has = (S # {})

----------------------------------------------------------------------------
(* 5. Gen: inputs for the harness                                          *)
GSecs == IF Scope >= 2 THEN 0..5 ELSE 0..2
GTs   == {[s |-> s, n |-> n] : s \in GSecs, n \in {0, 1, 999999999}}
GEnds == {[has |-> FALSE, t |-> [s |-> 0, n |-> 0]]} \cup {[has |-> TRUE, t |-> t] : t \in GTs}
GPeriods == {[s |-> a, e |-> b] : a \in GEnds, b \in GEnds}

GMags == 0..3
GLens == {0, 2, 4, 6}             \* 0..3 units of 2 ticks
GSegs == {Seg(m, n) : m \in GMags, n \in GLens} \cup {InfSeg(m) : m \in GMags}
GFin  == {Seg(m, n) : m \in GMags, n \in GLens}

\* (the parameter z only defeats TLC's caching of constant-level definitions)
RECURSIVE RandFin(_, _)
RandFin(n, z) == IF n = 0 THEN <<>>
                 ELSE <<Seg(RandomElement(GMags), RandomElement(GLens))>> \o RandFin(n - 1, z)
RandList(z) == LET n == RandomElement(0..6)
                   body == RandFin(n, z)
               IN IF n > 0 /\ RandomElement(1..3) = 1
                  THEN SubSeq(body, 1, n - 1) \o <<InfSeg(RandomElement(GMags))>> ELSE body
RECURSIVE RandLists(_, _)
RandLists(n, z) == IF n = 0 THEN <<>> ELSE <<RandList(z)>> \o RandLists(n - 1, z)
RandMode(z) == LET l == RandList(z) IN
               IF RandomElement(1..4) = 1 THEN [has |-> FALSE, st |-> 0, segs |-> l]
               ELSE [has |-> TRUE, st |-> RandomElement(0..9), segs |-> l]
RECURSIVE RandModes(_, _)
RandModes(n, z) == IF n = 0 THEN <<>> ELSE <<RandMode(z)>> \o RandModes(n - 1, z)

\* every list of at most two segments over the whole segment domain: the exhaustive core
SmallLists == {<<>>} \cup {<<x>> : x \in GSegs} \cup {<<x, y>> : x \in GFin, y \in GSegs}

GenInit ==
  \/ c \in [k : {"per"}, p : GPeriods, q : GPeriods]
  \/ c \in [k : {"cmp"}, a : GTs, b : GTs]
  \/ c \in [k : {"cut"}, sg : GSegs]
  \/ c \in [k : {"list"}, n : {0}, l : SmallLists]
  \/ c \in {[k |-> "list", n |-> j, l |-> RandList(j)] : j \in 1..NCases}
  \/ c \in {[k |-> "sum", n |-> j, ls |-> RandLists(1 + (j % 4), j)] : j \in 1..NCases}
  \/ c \in [k : {"sum"}, n : {0}, ls : {<<x, y>> : x \in {<<s>> : s \in GSegs}, y \in {<<s>> : s \in GSegs}}]
  \/ c \in {[k |-> "mode", n |-> j, m |-> RandMode(j)] : j \in 1..NCases}
  \/ c \in {[k |-> "msum", n |-> j, ms |-> RandModes(1 + (j % 4), j)] : j \in 1..NCases}
GenNext == UNCHANGED c

\* probes derived from the (already fixed) case: every tick at and around every breakpoint
SeqOfRange(a, b) == [i \in 1..(b - a + 1) |-> a + i - 1]
Expand(x) ==
  CASE x.k = "list" -> x @@ [ds |-> SeqOfRange(-(Horizon(x.l) + 2), Horizon(x.l) + 2)]
    [] x.k = "cut"  -> x @@ [ds |-> SeqOfRange(-2, x.sg.len + 2)]
    [] x.k = "mode" -> x @@ [ts |-> SeqOfRange(StartOf(x.m, 3) - 2, StartOf(x.m, 3) + Horizon(x.m.segs) + 2),
                             ds |-> SeqOfRange(-(Horizon(x.m.segs) + 2), Horizon(x.m.segs) + 2)]
    [] OTHER -> x
EmitCase == PrintT("CASE " \o ToJson(Expand(c)))
=============================================================================
