"""C14: trait servers give read-your-writes through the full stack WrapApi(router{name -> WrapApi(server)}).

spec/Stack.tla states the relations between what a client observes (the server's business rules are opaque);
spec/StackMC.tla model-checks them against a small reference register with streams and shows that seeded
defects of that register are rejected; spec/StackGen.tla prints random client histories; harness/cmd/stackx
replays them on every trait server of the registry (one process per server so that a crash is attributed, a
crashed server is re-run with recovering handlers to check the rest); spec/StackTrace.tla evaluates the
relations on every recorded step.  The registry is compared with a scan of $VERIF_REPO/pkg/trait so that it
cannot silently rot: servers with Get/Update/Pull methods that the registry does not drive are listed as
uncovered in the evidence, never as passing.
"""
import json
import os
import re
import subprocess
from concurrent.futures import ThreadPoolExecutor

import vf

MUTANTS = ["response-is-request", "no-stream-events", "constant-name", "ignores-updates-only", "no-initial-value",
           "rejected-update-writes", "get-ignores-mask", "get-writes", "other-delete-ends-streams",
           "late-timer-overwrites", "shared-event-filtered-in-place",
           "rejected-update-publishes", "equivalent-write-not-stored"]
SOFT = "pull-initial-value-not-received-in-time"
METHOD_RE = re.compile(r"^func \(\w+ \*?(\w+)\) (Get|Update|Pull)(\w*)\(", re.M)


def scan_tree():
    """Every model_server.go / memory.go under pkg/trait: which server types have Get*/Update*/Pull* methods."""
    root = os.path.join(vf.REPO, "pkg", "trait")
    found = []
    for d, _, files in os.walk(root):
        for f in sorted(files):
            if f not in ("model_server.go", "memory.go"):
                continue
            txt = open(os.path.join(d, f), errors="replace").read()
            types = {}
            for typ, verb, rest in METHOD_RE.findall(txt):
                types.setdefault(typ, {"Get": [], "Update": [], "Pull": []})[verb].append(verb + rest)
            pkg = os.path.relpath(d, root)
            if not types:
                found.append({"pkg": pkg, "file": f, "type": "", "methods": {}})
            for typ, m in sorted(types.items()):
                found.append({"pkg": pkg, "file": f, "type": typ, "methods": m})
    return found


def classify(ctx, listing):
    targets = listing["targets"]
    declared = listing["uncovered"]
    tkey = {(t["pkg"], t["file"], t["type"]) for t in targets}
    dkey = {(u["pkg"], u["file"], u["type"]): u["reason"] for u in declared}
    seen = set()
    res = {"covered": [], "uncovered_declared": [], "uncovered_not_in_registry": [], "no_update_rpc": [],
           "registry_entries_without_source_file": []}
    for s in scan_tree():
        k = (s["pkg"], s["file"], s["type"])
        seen.add(k)
        m = s["methods"]
        label = "%s/%s %s" % k
        if not m or not m.get("Update"):
            res["no_update_rpc"].append(label)
        elif k in dkey:
            res["uncovered_declared"].append({"server": label, "reason": dkey[k]})
        elif k in tkey:
            res["covered"].append({"server": label, "targets": [t["id"] for t in targets if (t["pkg"], t["file"], t["type"]) == k]})
        elif m.get("Get") and m.get("Pull"):
            res["uncovered_not_in_registry"].append({"server": label, "methods": m})
        else:
            res["no_update_rpc"].append(label + " (Update without Get/Pull)")
    for k in sorted(tkey | set(dkey)):
        if k not in seen:
            res["registry_entries_without_source_file"].append("%s/%s %s" % k)
    have = {t["service"] for t in targets}
    res["covered"].sort(key=lambda c: c["server"])
    res["no_update_rpc"].sort()
    res["services_with_triple_without_server_in_tree"] = sorted(
        {t["service"] for t in listing["triples"]} - have - {"smartcore.traits.PressApi"})
    res["triples_in_descriptors"] = len(listing["triples"])
    # models configured with an equivalence tolerance (Nudge steps move one float by 0.004 on every target that has one)
    tol = []
    for d, _, files in os.walk(os.path.join(vf.REPO, "pkg", "trait")):
        for f in files:
            if f.endswith(".go") and not f.endswith("_test.go") and "WithMessageEquivalence" in open(os.path.join(d, f), errors="replace").read():
                pkg = os.path.relpath(d, os.path.join(vf.REPO, "pkg", "trait"))
                tol.append({"pkg": pkg, "driven_by_a_target": any(t["pkg"] == pkg for t in targets)})
    res["models_with_equivalence_tolerance"] = sorted(tol, key=lambda x: x["pkg"])
    return res


def run_target(ctx, binary, tid, cases, safe):
    tag = re.sub(r"[^A-Za-z0-9.]", "_", tid) + ("-safe" if safe else "")
    out = ctx.path("obs-%s.ndjson" % tag)
    cur = ctx.path("current-%s.json" % tag)
    env = dict(vf.GOENV, VERIF_SEED=str(ctx.seed), VERIF_TIER=ctx.tier, VERIF_CURRENT=cur)
    cmd = [binary, "run", "-target", tid, "-cases", cases, "-out", out] + (["-safe"] if safe else [])
    try:
        p = subprocess.run(cmd, cwd=ctx.scratch, env=env, timeout=1500, stdout=subprocess.PIPE,
                           stderr=subprocess.STDOUT, text=True, errors="replace")
    except subprocess.TimeoutExpired:
        return {"tid": tid, "safe": safe, "error": "harness timeout"}
    res = {"tid": tid, "safe": safe, "rc": p.returncode, "out": out, "crash": None, "meta": None, "error": None}
    if p.returncode != 0:
        if "panic:" in p.stdout or "fatal error:" in p.stdout:
            current = None
            try:
                current = json.load(open(cur))
            except Exception:
                pass
            m = re.search(r"^(panic:.*|fatal error:.*)$", p.stdout, re.M)
            frames = [l.strip() for l in p.stdout.splitlines() if "sc-golang/pkg" in l or "sc-golang/internal" in l]
            res["crash"] = {"current": current, "message": m.group(1) if m else "", "frames": frames[:6]}
        else:
            res["error"] = "rc=%d: %s" % (p.returncode, p.stdout[-1500:])
        return res
    try:
        res["meta"] = json.load(open(out + ".meta"))
    except Exception as e:
        res["error"] = "no meta: %s" % e
    return res


def trace_chunk(ctx, path):
    tr = ctx.tlc("StackTrace", "StackTrace.cfg", workers=1, files={"obs.ndjson": path}, timeout=3000)
    n = sum(1 for _ in open(path))
    if not any(l.startswith('"CHECKED %d"' % n) for l in tr.out.splitlines()):
        raise vf.Inconclusive("trace check did not cover all %d observations:\n%s" % (n, tr.out[-3000:]))
    return tr.cases("BAD ")


def run(ctx):
    thorough = ctx.tier == "thorough"

    # ---- registry vs source tree -------------------------------------------------------------------
    p = ctx.run_harness(["list"], cmd="stackx")
    listing = json.loads(p.stdout[p.stdout.index("{"):])
    servers = classify(ctx, listing)
    ctx.cov["servers"] = servers
    for u in servers["uncovered_not_in_registry"]:
        print("UNCOVERED (not in the stackx registry): %s" % u["server"])
    for u in servers["registry_entries_without_source_file"]:
        print("STALE registry entry (no such source file in %s): %s" % (vf.REPO, u))

    # ---- MC: the relations hold on the reference machine and reject every seeded defect ---------------
    # (runs in the background while the histories are generated and replayed; joined before the trace check)
    mc_pool = ThreadPoolExecutor(max_workers=1)
    mc_future = mc_pool.submit(lambda: ctx.mc("StackMC", "StackMC.cfg", deadlock=False, workers=max(2, vf.NCPU // 2), timeout=3000,
                                              consts={"NF": 2, "MaxId": 1, "MaxSteps": 4 if thorough else 3,
                                                      "Mutants": "{%s}" % ", ".join('"%s"' % m for m in MUTANTS)}))

    # ---- Gen ----------------------------------------------------------------------------------------
    ncases = 12000 if thorough else 260
    gen = ctx.tlc("StackGen", "StackGen.cfg", consts={"NCases": ncases, "MaxOps": 12 if thorough else 10},
                  workers=4, timeout=1800)
    hists = gen.cases()
    if len(hists) < ncases * 0.9:
        raise vf.Inconclusive("Gen produced only %d histories\n%s" % (len(hists), gen.out[-2000:]))
    cases = ctx.write_ndjson("hists.ndjson", hists)

    # ---- replay on every target, one process each --------------------------------------------------------
    binary = ctx.harness(cmd="stackx")
    tids = [t["id"] for t in listing["targets"]]
    with ThreadPoolExecutor(max_workers=min(vf.NCPU, 8)) as ex:
        first = list(ex.map(lambda t: run_target(ctx, binary, t, cases, False), tids))
        crashed = [r["tid"] for r in first if r.get("crash")]
        second = list(ex.map(lambda t: run_target(ctx, binary, t, cases, True), crashed))
    inconclusive = []
    obs_files = []
    target_notes = {}
    violated_targets = set()
    for r in first + second:
        if r.get("error"):
            raise vf.Inconclusive("stackx %s failed: %s" % (r["tid"], r["error"]))
        if r.get("crash"):
            c = r["crash"]
            op = ((c.get("current") or {}).get("op") or {}).get("op", "unknown")
            ctx.violation("C14/%s/%s/panic" % (r["tid"], op),
                          "the server crashed the process instead of answering with a status (%s)%s" %
                          (c["message"], "; even behind recovering handlers" if r["safe"] else ""), c)
            violated_targets.add(r["tid"])
            target_notes.setdefault(r["tid"], []).append("crashed the plain stack: re-run with recovering handlers" if not r["safe"]
                                                          else "crashed even with recovering handlers")
            continue
        obs_files.append(r["out"])
        m = r["meta"]
        if m["aborted"] or m["unsynced"]:
            target_notes.setdefault(r["tid"], []).append(m)

    mc = mc_future.result()
    mc_pool.shutdown()
    caught = {}
    for line in mc.out.splitlines():
        if line.startswith('"CAUGHT '):
            s = json.loads(line)
            name, _, clauses = s[len("CAUGHT "):].partition(" ")
            caught.setdefault(name, set()).update(re.findall(r'"([^"]+)"', clauses))
    missing = [m for m in MUTANTS if m not in caught]
    if missing:
        raise vf.Inconclusive("StackMC: seeded defects not rejected by the relations: %s" % missing)
    ctx.cov["model_mutants_rejected_by"] = {k: sorted(v) for k, v in sorted(caught.items())}


    # ---- Trace ------------------------------------------------------------------------------------------
    obs = []
    for f in obs_files:
        obs += ctx.read_ndjson(f)
    if not obs:
        raise vf.Inconclusive("no observations")
    nchunks = max(1, min(6, len(obs) // 40000))
    size = (len(obs) + nchunks - 1) // nchunks
    chunks = []
    for i in range(nchunks):
        part = obs[i * size:(i + 1) * size]
        if part:
            chunks.append((i * size, ctx.write_ndjson("obs-chunk-%d.ndjson" % i, part)))
    with ThreadPoolExecutor(max_workers=len(chunks)) as ex:
        bads = list(ex.map(lambda c: trace_chunk(ctx, c[1]), chunks))
    ctx.count(len(obs))
    ctx.cov["steps_validated"] = len(obs)
    ctx.cov["traces_validated_against_impl"] += len({(o["tgt"], o["hist"]) for o in obs})

    soft = []
    resolved = set()
    for (off, _), bl in zip(chunks, bads):
        for b in bl:
            o = obs[off + b["line"] - 1]
            for clause in b["fails"]:
                if clause == SOFT:
                    soft.append(o)
                    continue
                if clause == "pull-does-not-start-with-current-value":
                    resolved.add((o["tgt"], o["hist"]))
                what = "history %d step %d (%s): clause '%s' false on what the stack answered" % (o["hist"], o["step"], o["op"], clause)
                if clause == "panic":
                    what = "history %d step %d: the server panicked on a well-formed %s instead of answering with a status: %s" % (
                        o["hist"], o["step"], o["op"], o["panic"])
                ctx.violation("C14/%s/%s/%s" % (o["tgt"], o["op"], clause), what, o)
                violated_targets.add(o["tgt"])
    for o in soft:
        if (o["tgt"], o["hist"]) not in resolved and o["tgt"] not in violated_targets:
            inconclusive.append("%s history %d step %d: a new Pull delivered nothing within the timeout and nothing later "
                                "settled whether it would have" % (o["tgt"], o["hist"], o["step"]))
    for tid, notes in target_notes.items():
        for m in notes:
            if isinstance(m, dict) and tid not in violated_targets:
                inconclusive.append("%s: %s" % (tid, json.dumps(m)))
    for o in obs:
        if o["code"] == "DeadlineExceeded" or not o["pre"]["ok"]:
            inconclusive.append("%s history %d step %d: harness-side RPC timeout or failing unmasked Get (%s / %s)" %
                                (o["tgt"], o["hist"], o["step"], o["code"], o["pre"]["code"]))
            break
    if target_notes:
        ctx.cov["notes"].append({"targets_with_incidents": {k: v for k, v in target_notes.items()}})

    # ---- coverage -----------------------------------------------------------------------------------------
    per_target = {}
    for o in obs:
        d = per_target.setdefault(o["tgt"], {"steps": 0, "updates_ok": 0, "updates_changing": 0, "updates_rejected": 0,
                                             "panics": 0, "masked_gets": 0, "stream_deliveries_checked": 0, "pulls_opened": 0})
        d["steps"] += 1
        changed = o["op"] == "Update" and o["code"] == "OK" and o["resp"] != o["pre"]["v"]
        if o["op"] == "Update":
            if o["code"] == "OK":
                d["updates_ok"] += 1
                d["updates_changing"] += changed
            elif o["code"] == "PANIC":
                d["panics"] += 1
            else:
                d["updates_rejected"] += 1
        elif o["op"] == "Get":
            d["masked_gets"] += not o["mask"]["nil"]
            d["sub_field_masked_gets"] = d.get("sub_field_masked_gets", 0) + bool(o["mask"]["nested"])
        elif o["op"] == "OpenPull":
            d["pulls_opened"] += 1
        elif o["op"] in ("TimedUpdate", "Wait", "Nudge"):
            d[o["op"]] = d.get(o["op"], 0) + 1
        elif o["op"] == "Other":
            d["other_record_deleted_or_created"] = d.get("other_record_deleted_or_created", 0) + 1
        d["stream_deliveries_checked"] += sum(1 for s in o["streams"] if s["awaited"])
        if o["op"] == "Update":
            d["masked_stream_deliveries_checked"] = d.get("masked_stream_deliveries_checked", 0) + sum(
                1 for s in o["streams"] if s["awaited"] and not s["mask"]["nil"])
            masks = [json.dumps(s["mask"], sort_keys=True) for s in o["streams"]]
            d["updates_with_streams_of_different_masks"] = d.get("updates_with_streams_of_different_masks", 0) + (len(set(masks)) > 1)
        if o["op"] == "OpenPull" and not o["mask"]["nil"]:
            d["masked_pulls"] = d.get("masked_pulls", 0) + 1
        if "between" in o["note"] and o["op"] == "Update":
            d["pulls_opened_between_commit_and_publication"] = d.get("pulls_opened_between_commit_and_publication", 0) + 1
        nontrivial = (o["op"] in ("Update", "Other", "TimedUpdate", "Wait", "Nudge")) or (o["op"] == "OpenPull" and not o["mask"]["nil"]) or (o["op"] == "Get" and not o["mask"]["nil"]) or any(s["awaited"] for s in o["streams"])
        if nontrivial:
            ctx.distinct((o["tgt"], o["op"], o["code"], o["mask"], o["val"], changed, o["pre"]["v"] == o["post"]["v"],
                          [(s["uo"], s["fresh"], s["quiet"], s["opened"], len(s["msgs"]), s["mask"]) for s in o["streams"]]))
    ctx.cov["per_target"] = per_target
    for o in obs[:1] + obs[len(obs) // 2: len(obs) // 2 + 2] + obs[-1:]:
        ctx.sample(o)
    ctx.cov["rule"] = ("histories generated by TLC from spec/StackGen.tla (Update(value index, update mask), Get(read mask), "
                       "OpenPull(updates-only, name), CloseStream, Other(delete/create another record of the same collection, for the "
                       "servers whose triple addresses one record: hail, publication, vending stock); 1-6 updates, 0-2 open streams, a quarter of the updates "
                       "repeat the previous value) replayed on every server of the stackx registry through "
                       "WrapApi(router{2 names -> WrapApi(server)}); values are 3-4 far-apart well-formed messages per resource "
                       "type plus values the business rules refuse, masks are sets of top-level paths (and a path naming no "
                       "field for updates). Every step (with the unmasked Get before and after and everything read from the "
                       "open streams) is one evaluation of Stack!Fails; non-trivial = an Update, a masked Get or a step that "
                       "waited on a stream; distinct = distinct (server, op, status, mask, value, changed?, stream states)")
    ctx.assumptions += [
        "the harness is the only client of each freshly built server; servers with background activity (light tweening) are driven with zero durations",
        "a Pull is known to be established through the sub.listening hook point of pkg/resource (build tag verif); "
        "a change not read within 4 s of the Update's response counts as missing",
        "message equality is equality of the deterministic wire encoding per top-level field; read/update masks use top-level paths only",
    ]
    if inconclusive and not ctx.violations:
        raise vf.Inconclusive("; ".join(inconclusive[:5]))
    if inconclusive:
        ctx.cov["notes"].append({"inconclusive_besides_violations": inconclusive[:10]})


MANIFEST = {
    "engine": "spec/Stack.tla + StackMC/StackGen/StackTrace.tla (TLC) + harness 'stackx'",
    "technique": "TLA+ relations between client observations of a register behind Wrap(router(Wrap(server))); TLC MC of a "
                 "reference register with streams (relations hold, 13 seeded defects rejected); TLC-generated client histories "
                 "replayed on every trait server found in the tree; TLC validates every recorded step",
    "text": "Stack.tla states what the property text demands of one client step given the unmasked Get before and after: "
            "a successful Update's response is the next Get; a masked Get is the projection of the unmasked one; a new Pull "
            "starts with the current value unless updates-only (an updates-only stream must not start with it); an Update whose "
            "response differs from the value before appears on every open stream with the response's value and the Pull "
            "request's name; a rejected (or crashing) Update leaves Get unchanged; a panic is never an answer. TLC checks these "
            "relations on a reference machine whose server side is as free as the text leaves it and shows each of 13 seeded "
            "defects is rejected. TLC then prints random histories; stackx builds, per server of its registry (16 constructions "
            "of 14 server types in 13 packages, compared on every run with a scan of pkg/trait), the package's own "
            "WrapApi(NewApiRouter{2 names -> WrapApi(server)}) stack, drives it by full method name with requests built through "
            "protoreflect, reads every stream as fast as it delivers, and TLC evaluates the relations on every step. Conformance "
            "testing of the real code against the specification on generated histories, not a proof.",
    "note": "Trusted base: TLC 1.8.0; the Go abstraction (one registry number per top-level field value); the hook point "
            "sub.listening of pkg/resource used to know that a Pull is established; the 4 s delivery timeout. One process per "
            "server: a crash of the plain stack is attributed to the step announced last and the server is re-run behind "
            "recovering gRPC handlers so the other relations are still checked. Servers with Get/Update/Pull methods that the "
            "registry cannot drive (presspb.ModelServer: methods are not PressApi RPCs) are listed as uncovered in the evidence. "
            "Services with a triple but no server in the tree (Color, ExtendRetract, InputSelect, LockUnlock, Microphone, Ptz, "
            "Temperature) have only routers/wrappers and belong to C12.",
}
