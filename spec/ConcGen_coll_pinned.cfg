SPECIFICATION Spec
CONSTANTS
  Writers <- W2
  Subs <- S0
  Ids <- I1
  MaxV = 6
  Programs <- CollPrograms
  SubKinds <- Kinds
  InitStores <- CollStores
  PublishAfterUnlock = FALSE
  CreatedRevalidated = FALSE
  DeleteHoldsLock = TRUE
  SnapHoldsLock = TRUE
  DeleteRechecks = TRUE
  Equiv = "none"
  SubSer = FALSE
  MayCancel = FALSE
  SnapAtCommit = TRUE
  CollectLive = TRUE
INVARIANT EmitSched
CHECK_DEADLOCK FALSE
