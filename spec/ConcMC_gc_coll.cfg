SPECIFICATION Spec
CONSTANTS
  Writers <- W2
  Subs <- S2
  Ids <- I1
  MaxV = 6
  Programs <- GcPrograms
  SubKinds <- KindsUo
  InitStores <- CollStores
  PublishAfterUnlock = FALSE
  CreatedRevalidated = TRUE
  DeleteHoldsLock = TRUE
  SnapHoldsLock = TRUE
  DeleteRechecks = TRUE
  Equiv = "none"
  SubSer = FALSE
  MayCancel = TRUE
  SnapAtCommit = TRUE
  CollectLive = TRUE
VIEW ViewNoHist
INVARIANTS TypeOK CommitValid EffectOnce LoserCodes Converged NoCommitMissed EditScript
CHECK_DEADLOCK FALSE
