INIT MCInit
NEXT MCNext
INVARIANTS LawPeriods LawCompare LawRead LawShiftCut LawSum LawMode
