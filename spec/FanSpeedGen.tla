---------------------------- MODULE FanSpeedGen ----------------------------
(***************************************************************************)
(* Gen use of FanSpeed.tla: random preset tables (1..5 distinct names,    *)
(* percentages in any order, sometimes repeated) or the default table, a  *)
(* consistent initial fan speed -- handed to NewModel as a sequence of    *)
(* options in a random order, each alone, or not at all -- then           *)
(* 10..MaxOps update requests.                                            *)
(* A request either starts from a zero message ("zero": what a client     *)
(* that sets one field sends) or from the current fan speed ("current":   *)
(* read-modify-write; "preset": only the current preset is echoed, the    *)
(* way a relative step that keeps the preset selected has to be sent) and *)
(* overrides the fields named by set*; the harness                        *)
(* logs the message it actually sent.                                     *)
(***************************************************************************)
EXTENDS FanSpeed, TLC, Json

CONSTANTS NCases, MaxOps
VARIABLE c

R(S) == RandomElement(S)
Flip(z, pct) == RandomElement(1..100) <= pct
Pick(z, seq) == seq[RandomElement(1..Len(seq))]

NamePool == <<"off", "low", "med", "high", "full", "eco", "boost">>
Pcts == { 5 * k : k \in 0..20 }
RandPresets(z) ==
  LET keep == <<Flip(z, 50), Flip(z, 50), Flip(z, 50), Flip(z, 50), Flip(z, 50), Flip(z, 50), Flip(z, 50)>>
      idx == SelectSeq(<<1, 2, 3, 4, 5, 6, 7>>, LAMBDA j : keep[j])
      idx2 == IF idx = <<>> THEN <<3>> ELSE SubSeq(idx, 1, IF Len(idx) > 5 THEN 5 ELSE Len(idx))
      few == {0, 25, 50, 100}
      dup == Flip(z, 30)        \* few distinct percentages: repeated ones likely
      ps == [j \in 1..Len(idx2) |-> [name |-> NamePool[idx2[j]], pct |-> IF dup THEN R(few) ELSE R(Pcts)]]
  IN SelectSeq(ps, LAMBDA x : TRUE)     \* forces one evaluation

Req(z, ps) ==
  LET names == { ps[k].name : k \in 1..Len(ps) }
      rel == Flip(z, 35)
      base == IF rel THEN Pick(z, <<"zero", "preset", "preset">>) ELSE Pick(z, <<"zero", "current", "current">>)
      what == Pick(z, <<"preset", "preset", "index", "index", "pct", "pct", "preset+index", "preset+pct", "index+pct", "all", "none">>)
  IN [op |-> "Update", base |-> base, relative |-> rel,
      setPreset |-> what \in {"preset", "preset+index", "preset+pct", "all"},
      setIndex |-> what \in {"index", "preset+index", "index+pct", "all"},
      setPct |-> what \in {"pct", "preset+pct", "index+pct", "all"},
      preset |-> IF Flip(z, 8) THEN "bogus" ELSE IF Flip(z, 10) THEN "" ELSE R(names),
      index |-> IF rel THEN R(-3..3) ELSE R(-1..(Len(ps) + 1)),
      pct |-> IF rel THEN 5 * R(-6..6) ELSE IF Flip(z, 50) THEN ps[R(1..Len(ps))].pct ELSE R(Pcts)]

\* a random permutation of a sequence
RECURSIVE Shuffle(_, _)
Shuffle(z, s) == IF s = <<>> THEN <<>>
                 ELSE LET i == RandomElement(1..Len(s))
                      IN <<s[i]>> \o Shuffle(z, [j \in 1..(Len(s) - 1) |-> IF j < i THEN s[j] ELSE s[j + 1]])

\* the options in a random order: presets and initial fan speed in both orders, each alone, neither
Prog(k) ==
  LET custom == Flip(k, 70)
      ps == IF custom THEN RandPresets(k) ELSE DefaultPresets
      hasInit == Flip(k, 70)
      none == [kind |-> "clock", presets |-> <<>>, init |-> DefaultInit, via |-> "model"]
      tags == (IF custom THEN <<[none EXCEPT !.kind = "presets", !.presets = ps]>> ELSE <<>>)
              \o (IF hasInit THEN <<[none EXCEPT !.kind = "init", !.init = Triple(ps, R(1..Len(ps))), !.via = Pick(k, <<"model", "model", "resource">>)]>> ELSE <<>>)
              \o (IF Flip(k, 35) THEN <<none>> ELSE <<>>)
      opts == Shuffle(k, tags)
  IN [model |-> "fanspeed", n |-> k,
      cfg |-> [opts |-> opts, custom |-> HasOpt(opts, "presets"), presets |-> ConfPresets(opts),
               hasInit |-> HasOpt(opts, "init"), init |-> ConfInit(opts)],
      ops |-> [j \in 1..R(10..MaxOps) |-> Req(k, ps)]]

GenInit == c \in { Prog(k) : k \in 1..NCases }
GenNext == UNCHANGED c
EmitCase == PrintT("CASE " \o ToJson(c))
=============================================================================
