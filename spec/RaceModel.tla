----------------------------- MODULE RaceModel -----------------------------
(***************************************************************************)
(* C11, design level: an abstract happens-before model of the library's    *)
(* shared locations and of the synchronisation that is meant to order the  *)
(* accesses to them.  A TLA+ specification does not observe Go memory       *)
(* accesses; what it can check is the DESIGN: if every process follows the  *)
(* locking/channel discipline written down here (read off the code, file    *)
(* and line given at each operation), are two conflicting accesses always   *)
(* ordered?  The code-level oracle is the Go race detector (cmd/racex).     *)
(*                                                                         *)
(* A process is a straight-line list of steps.  A step is one               *)
(* synchronisation operation plus the abstract locations read and written   *)
(* right after its acquire half and before its release half:                *)
(*   lock/unlock, rlock/runlock   sync.Mutex / sync.RWMutex                 *)
(*   rel o / acq o n              a one-directional edge: channel send ->   *)
(*                                receive, close -> receive, cancel ->      *)
(*                                <-Done(), wg.Done -> wg.Wait (acq waits   *)
(*                                for n rels).  The reverse edge of an      *)
(*                                unbuffered channel is NOT modelled, so    *)
(*                                the model's happens-before is a subset of *)
(*                                the real one: NoRace here is the stronger *)
(*                                statement.                                *)
(*   spawn q                      go statement                              *)
(*   nop                          accesses with no synchronisation          *)
(* Vector clocks are auxiliary variables (FastTrack style: per location    *)
(* the last write epoch and the read clock of every process).              *)
(***************************************************************************)
EXTENDS Integers, Sequences, FiniteSets, TLC

CONSTANTS
  N,            \* main processes 1..N; process p may start one helper goroutine N+p
  Family,       \* which scenarios: "val" | "coll" | "bus" | "rtr" | "stream" | "group"
  RngGuard,     \* Collection id generation: "readlock" = as the code (rng used under mu.RLock only),
                \*   "ownmutex" / "writelock" = the two repairs
  StreamGuard,  \* wrap stream header/trailer/closeErr: "none" = as the code, "mutex" = repaired
  OldMutated,   \* TRUE = a write interceptor edits the stored (old) message in place, as metadatapb's merge
                \*   interceptor and parentpb's traitUnion/traitRemove do; FALSE = old is only read
  DefaultShared,\* what the package-level default options share between two instances of one type ("dflt" family):
                \*   "none" = every instance gets its own (repaired), "rng" = ONE random source held by the package's
                \*   DefaultModelOptions feeds the id generation of every instance (electricpb, as the code had it),
                \*   "message" = one initial message held by the defaults is the stored value of every new instance
                \*   (onoffpb, lightpb, ... as the code has it: harmless as long as nobody writes it)
  Mutant        \* "none", or a seeded deviation the model must catch: "getNoRLock" | "collectNoLock" | "hasNoLock"
                \*   | "optionNormalisedInPlace" (the library normalises the CALLER's update mask when the option is applied)
                \*   | "metadataAppendedInPlace" (a later SetHeader appends into the map an earlier one stored)

All  == 1..(2 * N)
Main == 1..N

VARIABLES scen,     \* the scenario: operation of each main process (chosen in Init, then constant)
          pc, vc, started,
          wh, rdrs, relW, relR,      \* locks: write holder, read holders, release clocks
          sync, cnt,                 \* rel/acq objects: accumulated clock, number of rels
          lastW, lastR,              \* per location: last write epoch, read clocks
          ptr, held, sent, registered, snap,
          races
vars == << scen, pc, vc, started, wh, rdrs, relW, relR, sync, cnt, lastW, lastR, ptr, held, sent, registered, snap, races >>

-----------------------------------------------------------------------------
(* steps *)
B == [a |-> "nop", o |-> "", n |-> 0, rd |-> {}, wr |-> {}, rdp |-> {}, hold |-> "", rdh |-> FALSE, wrh |-> FALSE,
      set |-> <<>>, pub |-> "", rds |-> FALSE, cond |-> 0, snp |-> FALSE, regme |-> FALSE]
Nop        == B
Lock(o)    == [B EXCEPT !.a = "lock", !.o = o]
Unlock(o)  == [B EXCEPT !.a = "unlock", !.o = o]
RLock(o)   == [B EXCEPT !.a = "rlock", !.o = o]
RUnlock(o) == [B EXCEPT !.a = "runlock", !.o = o]
Rel(o)     == [B EXCEPT !.a = "rel", !.o = o]
Acq(o, n)  == [B EXCEPT !.a = "acq", !.o = o, !.n = n]
Spawn(q)   == [B EXCEPT !.a = "spawn", !.n = q]
Acc(s, rd, wr) == [s EXCEPT !.rd = rd, !.wr = wr]
RdP(s, ps)     == [s EXCEPT !.rdp = ps]                 \* read pointer cells ps and the messages they point to
Hold(s, x)     == [s EXCEPT !.hold = x]                 \* read pointer cell x and remember its target
Pub(s, m)      == [s EXCEPT !.pub = m]                  \* hand message m to whoever acquires from s.o

M(p)    == "m" \o ToString(p)            \* the message process p builds
CL(p)   == "cl" \o ToString(p)           \* the client object process p builds
L(p, s) == "L" \o ToString(p) \o s       \* parts of the bus listener of process p

IC(i, s) == "c" \o ToString(i) \o s      \* parts of instance i of a type built from the package defaults
Insts == {1, 2}
PtrNames == { "v.value", "c.byId", "r.registry", "s.hdr" } \cup { IC(i, ".byId") : i \in Insts }
Objs == { "v.mu", "v.pubMu", "v.bus", "c.mu", "c.pubMu", "c.rngMu", "c.bus", "b.lm", "r.mu",
          "s.mu", "s.headerM", "s.headerC", "s.send", "s.closed", "s.ctx", "g.resp" }
        \cup UNION { { L(p, ".m"), L(p, ".chan"), L(p, ".ctx") } : p \in Main }
        \cup UNION { { IC(i, ".mu"), IC(i, ".pubMu"), IC(i, ".rngMu"), IC(i, ".bus") } : i \in Insts }

-----------------------------------------------------------------------------
(* the access disciplines, as the code has them *)

\* pkg/resource/value.go:45 get: RLock, FilterClone(r.value), RUnlock
VGet(p) == IF Mutant = "getNoRLock" THEN << RdP(Nop, {"v.value"}) >>
           ELSE << RdP(RLock("v.mu"), {"v.value"}), RUnlock("v.mu") >>
\* value.go:58 set + atomic.go:42 GetAndUpdate: get under RLock; clone + change callbacks with no lock (they read
\* old, build the new message); pubMu; Lock, get again + proto.Equal(old, again), save; Unlock; bus.Send; pubMu.Unlock
WriteVia(p, mu, pubMu, cell, bus) ==
  << Hold(RLock(mu), cell), RUnlock(mu),
     [Nop EXCEPT !.rdh = TRUE, !.wrh = OldMutated, !.wr = {M(p)}],
     Lock(pubMu),
     [Lock(mu) EXCEPT !.rdp = {cell}, !.rdh = TRUE, !.set = <<cell, M(p)>>],
     Unlock(mu), Pub(Rel(bus), M(p)), Unlock(pubMu) >>
VSet(p) == WriteVia(p, "v.mu", "v.pubMu", "v.value", "v.bus")
\* value.go:104 Pull / :155 onUpdate: snapshot under RLock; the consumer reads the seed and then what is sent
PullVia(p, mu, cell, bus) ==
  << Hold(RLock(mu), cell), RUnlock(mu), [Nop EXCEPT !.rdh = TRUE], [Acq(bus, 1) EXCEPT !.rds = TRUE] >>
VPull(p) == PullVia(p, "v.mu", "v.value", "v.bus")

\* pkg/resource/collection.go:50 Get / :68 List
CGet(p) == << RdP(RLock("c.mu"), {"c.byId"}), RUnlock("c.mu") >>
\* collection.go:104 Update (same GetAndUpdate)
CSet(p) == WriteVia(p, "c.mu", "c.pubMu", "c.byId", "c.bus")
CPull(p) == PullVia(p, "c.mu", "c.byId", "c.bus")
\* collection.go:116-118 + :395 genID + id.go:14: the id is generated inside the optimistic read, i.e. while holding
\* mu.RLock only: rng.Read mutates the generator
GenTail(p, underLock) ==
  << Acc(Nop, {}, {M(p)}), Lock("c.pubMu"),
     Acc(Lock("c.mu"), {"c.byId"} \cup underLock, {"c.byId"} \cup underLock), Unlock("c.mu"),
     Pub(Rel("c.bus"), M(p)), Unlock("c.pubMu") >>
CGen(p) ==
  CASE RngGuard = "readlock"  -> << Acc(RLock("c.mu"), {"c.rng", "c.byId"}, {"c.rng"}), RUnlock("c.mu") >> \o GenTail(p, {})
    [] RngGuard = "ownmutex"  -> << RLock("c.mu"), Acc(Lock("c.rngMu"), {"c.rng"}, {"c.rng"}), Unlock("c.rngMu"),
                                    Acc(RUnlock("c.mu"), {"c.byId"}, {}) >> \o GenTail(p, {})
    [] RngGuard = "writelock" -> << Acc(RLock("c.mu"), {"c.byId"}, {}), RUnlock("c.mu") >> \o GenTail(p, {"c.rng"})
\* collection.go:186 Delete: read under RLock, checks with no lock, pubMu + Lock, compare, delete, Send under the lock
CDel(p) ==
  << Hold(RLock("c.mu"), "c.byId"), RUnlock("c.mu"), [Nop EXCEPT !.rdh = TRUE], Lock("c.pubMu"),
     [Acc(Lock("c.mu"), {"c.byId"}, {}) EXCEPT !.set = <<"c.byId", "nil">>], Rel("c.bus"), Unlock("c.mu"), Unlock("c.pubMu") >>

\* ---- location kind "package-level default shared by instances" -------------------------------------------------
\* Two instances of one type, each with its own locks.  What they share is only what the package's default options
\* hold by reference.  electricpb/model_opts.go (as the code had it): DefaultModelOptions contained
\* WithRNG(rand.New(...)) evaluated once at package init, so every model's collection drew its ids from ONE generator,
\* each under its OWN rngMu - the locks are per instance, the location is per package.
RngOf(i) == IF DefaultShared = "rng" THEN "pkg.rng" ELSE IC(i, ".rng")
IGen(p, i) == << RLock(IC(i, ".mu")), Acc(Lock(IC(i, ".rngMu")), {RngOf(i)}, {RngOf(i)}), Unlock(IC(i, ".rngMu")),
                 Acc(RUnlock(IC(i, ".mu")), {IC(i, ".byId")}, {}),
                 Acc(Nop, {}, {M(p)}), Lock(IC(i, ".pubMu")),
                 Acc(Lock(IC(i, ".mu")), {IC(i, ".byId")}, {IC(i, ".byId")}), Unlock(IC(i, ".mu")),
                 Pub(Rel(IC(i, ".bus")), M(p)), Unlock(IC(i, ".pubMu")) >>
\* reading / writing the stored value of instance i: initially the message the defaults hold
IGet(p, i) == << RdP(RLock(IC(i, ".mu")), {IC(i, ".byId")}), RUnlock(IC(i, ".mu")) >>
ISet(p, i) == WriteVia(p, IC(i, ".mu"), IC(i, ".pubMu"), IC(i, ".byId"), IC(i, ".bus"))
InitialOf(i) == IF DefaultShared = "message" THEN "pkg.m0" ELSE "m0." \o ToString(i)

\* ---- location kind "caller-owned option value shared between calls" ---------------------------------------------
\* A write option (resource.WithUpdateMask(mask), kept by pointer in WriteRequest.UpdateMask, opt.go) or a read option
\* (WithReadMask) is built once by the caller and handed to many calls, by many goroutines, on one or several
\* resources.  No lock of any resource covers it: the only discipline that works is that the library READS it and
\* never writes it (opt.go fieldUpdater -> masks.WithUpdateMask stores the pointer, update.go Validate/Merge read the
\* paths and normalise a COPY).  The seeded deviation normalises the caller's mask in place when the option is applied.
OptUse(loc) == IF Mutant = "optionNormalisedInPlace" THEN << Acc(Nop, {loc}, {loc}) >> ELSE << Acc(Nop, {loc}, {}) >>
OSet(p, i) == OptUse("opt.wmask") \o ISet(p, i)
OGet(p, i) == << Acc(Nop, {"opt.rmask"}, {}) >> \o IGet(p, i)

\* internal/minibus/bus.go:58 Listen: build the listener, start the goroutine that stops it, append under listenerM
ListenHead(p) == << Acc(Nop, {}, {L(p, ".ch")}), Spawn(N + p),
                    [Acc(Lock("b.lm"), {"b.listeners"}, {"b.listeners"}) EXCEPT !.regme = TRUE], Unlock("b.lm") >>
BListen(p) == ListenHead(p) \o << [Acq(L(p, ".chan"), 1) EXCEPT !.rds = TRUE], Rel(L(p, ".ctx")) >>
BCancel(p) == ListenHead(p) \o << Rel(L(p, ".ctx")) >>
\* bus.go:64 + :106 stop: after <-ctx.Done(): l.m.Lock, close(l.ch), l.ch = nil
ListenHelper(p) == << Acq(L(p, ".ctx"), 1), Acc(Lock(L(p, ".m")), {L(p, ".ch")}, {L(p, ".ch")}), Unlock(L(p, ".m")) >>
\* bus.go:13 Send: copy the listeners under RLock; per listener (bus.go:88) l.m.RLock, send on l.ch; then collect
SendTo(q) == << [Acc(RLock(L(q, ".m")), {L(q, ".ch")}, {}) EXCEPT !.cond = q],
                [B EXCEPT !.a = "rel", !.o = L(q, ".chan"), !.pub = "mine", !.cond = q],
                [RUnlock(L(q, ".m")) EXCEPT !.cond = q] >>
RECURSIVE SendAll(_)
SendAll(q) == IF q > N THEN <<>> ELSE SendTo(q) \o SendAll(q + 1)
\* bus.go:46 collect: rebuild b.listeners under listenerM.Lock
Collect == IF Mutant = "collectNoLock" THEN << Acc(Nop, {"b.listeners"}, {"b.listeners"}) >>
           ELSE << Acc(Lock("b.lm"), {"b.listeners"}, {"b.listeners"}), Unlock("b.lm") >>
BSend(p) == << Acc(Nop, {}, {M(p)}), [Acc(RLock("b.lm"), {"b.listeners"}, {}) EXCEPT !.snp = TRUE], RUnlock("b.lm") >>
            \o SendAll(1) \o Collect

\* pkg/router/router.go:51 Add, :66 Remove, :81 Has, :100 Get (hit) and Get through the factory (:107-121)
RAdd(p)    == << Acc(Nop, {}, {CL(p)}), [Acc(Lock("r.mu"), {"r.registry"}, {}) EXCEPT !.set = <<"r.registry", CL(p)>>], Unlock("r.mu") >>
RRemove(p) == << [Acc(Lock("r.mu"), {"r.registry"}, {}) EXCEPT !.set = <<"r.registry", "nil">>], Unlock("r.mu") >>
RHas(p)    == IF Mutant = "hasNoLock" THEN << Acc(Nop, {"r.registry"}, {}) >>
              ELSE << Acc(RLock("r.mu"), {"r.registry"}, {}), RUnlock("r.mu") >>
RGet(p)    == << Hold(RLock("r.mu"), "r.registry"), RUnlock("r.mu"), [Nop EXCEPT !.rdh = TRUE] >>   \* then uses the client
RMake(p)   == << Acc(RLock("r.mu"), {"r.registry"}, {}), RUnlock("r.mu"), Acc(Nop, {}, {CL(p)}),
                 [Acc(Lock("r.mu"), {"r.registry"}, {}) EXCEPT !.set = <<"r.registry", CL(p)>>], Unlock("r.mu") >>

\* pkg/wrap/stream.go: header (:130 SetHeader, :135 SendHeader under headerM, close(headerC)), trailer (:148),
\* closeErr (:40 Close: closeErr = err; close(serverSend); cancel), read by the client after <-headerC (:64),
\* after serverSend is closed (:113) - or after ITS OWN context ended (:96, :106): then nothing orders the read
G(rd, wr) == IF StreamGuard = "mutex" THEN << Acc(Lock("s.mu"), rd, wr), Unlock("s.mu") >> ELSE << Acc(Nop, rd, wr) >>
StreamServer(p) ==
  G({"s.header"}, {"s.header"})                                                        \* SetHeader
  \o << Lock("s.headerM") >> \o G({"s.header"}, {"s.header"}) \o << Rel("s.headerC"), Unlock("s.headerM") >>   \* SendHeader
  \o << Acc(Nop, {}, {M(p)}), Pub(Rel("s.send"), M(p)) >>                              \* SendMsg
  \o G({"s.trailer"}, {"s.trailer"})                                                   \* SetTrailer
  \o G({}, {"s.closeErr"}) \o << Rel("s.closed"), Rel("s.ctx") >>                      \* Close
\* wrap.go:61/:105: the client side creates the stream and starts the handler goroutine
StreamClient(p) ==
  << Acc(Nop, {}, {"s.header", "s.trailer", "s.closeErr"}), Spawn(2), Acq("s.headerC", 1) >> \o G({"s.header"}, {})   \* Header
  \o << [Acq("s.send", 1) EXCEPT !.rds = TRUE], Acq("s.closed", 1) >> \o G({"s.closeErr"}, {})                         \* RecvMsg, RecvMsg -> EOF
  \o G({"s.trailer"}, {})                                                                                                \* Trailer
\* the client ends the call itself (cancel), its next SendMsg/RecvMsg returns through closeErrLocked, then it reads the trailer
StreamClientCancel(p) ==
  << Acc(Nop, {}, {"s.header", "s.trailer", "s.closeErr"}), Spawn(2), Rel("s.ctx") >> \o G({"s.closeErr"}, {}) \o G({"s.trailer"}, {})

\* stream.go joinHeader / getHeader: every SetHeader/SendHeader builds a NEW map (metadata.Join) and stores it in
\* s.header under s.mu; the client's Header() fetches the pointer under s.mu and clones the map it points to OUTSIDE
\* the lock.  That is race free only because a stored map is never written again: a SetHeader after the headers were
\* sent (this stream accepts it) replaces the map.  The seeded deviation appends into the stored map instead.
StreamServerLate(p) ==
  << [Acc(Lock("s.mu"), {"s.hdr"}, {"hm1"}) EXCEPT !.set = <<"s.hdr", "hm1">>], Unlock("s.mu"),                 \* SetHeader
     Lock("s.headerM"), [Acc(Lock("s.mu"), {"s.hdr", "hm1"}, {"hm2"}) EXCEPT !.set = <<"s.hdr", "hm2">>], Unlock("s.mu"),
     Rel("s.headerC"), Unlock("s.headerM"),                                                                      \* SendHeader
     IF Mutant = "metadataAppendedInPlace" THEN Acc(Lock("s.mu"), {"s.hdr", "hm2"}, {"hm2"})
     ELSE [Acc(Lock("s.mu"), {"s.hdr", "hm2"}, {"hm3"}) EXCEPT !.set = <<"s.hdr", "hm3">>],                      \* a late SetHeader
     Unlock("s.mu") >>
StreamClientPeek(p) ==
  << Acc(Nop, {}, {"s.hdr"}), Spawn(2), Acq("s.headerC", 1), Hold(Lock("s.mu"), "s.hdr"), Unlock("s.mu"),
     [Nop EXCEPT !.rdh = TRUE] >>                                                                                 \* cloneMD outside the lock

\* pkg/group/exec.go:176 executeEach: one goroutine per member, results come back over a channel (buffered: a send
\* needs no receiver); only the caller writes the results slice (:104)
GroupMember(p) == << Acc(Nop, {"g.members"}, {M(p)}), Pub(Rel("g.resp"), M(p)) >>
GroupCaller(need) == << Acc(Nop, {}, {"g.members"}), Spawn(2), Spawn(3),
                        [Acq("g.resp", need) EXCEPT !.rds = TRUE, !.wr = {"g.results"}],
                        Acc(Nop, {"g.results"}, {}) >>     \* the caller reads only the responses it received

Steps(op, p) ==
  CASE op = "VGet" -> VGet(p)   [] op = "VSet" -> VSet(p)   [] op = "VPull" -> VPull(p)
    [] op = "CGet" -> CGet(p)   [] op = "CSet" -> CSet(p)   [] op = "CGen" -> CGen(p) [] op = "CDel" -> CDel(p) [] op = "CPull" -> CPull(p)
    [] op = "BListen" -> BListen(p) [] op = "BCancel" -> BCancel(p) [] op = "BSend" -> BSend(p)
    [] op = "RAdd" -> RAdd(p) [] op = "RRemove" -> RRemove(p) [] op = "RHas" -> RHas(p) [] op = "RGet" -> RGet(p) [] op = "RMake" -> RMake(p)
    [] op = "StreamServer" -> StreamServer(p) [] op = "StreamClient" -> StreamClient(p) [] op = "StreamClientCancel" -> StreamClientCancel(p)
    [] op = "IGen1" -> IGen(p, 1) [] op = "IGen2" -> IGen(p, 2) [] op = "IGet1" -> IGet(p, 1) [] op = "IGet2" -> IGet(p, 2)
    [] op = "ISet1" -> ISet(p, 1) [] op = "ISet2" -> ISet(p, 2)
    [] op = "OSet1" -> OSet(p, 1) [] op = "OSet2" -> OSet(p, 2) [] op = "OGet1" -> OGet(p, 1) [] op = "OGet2" -> OGet(p, 2)
    [] op = "StreamServerLate" -> StreamServerLate(p) [] op = "StreamClientPeek" -> StreamClientPeek(p)
    [] op = "GroupMember" -> GroupMember(p) [] op = "GroupAll" -> GroupCaller(2) [] op = "GroupFast" -> GroupCaller(1)
HelperSteps(op, p) == IF op \in {"BListen", "BCancel"} THEN ListenHelper(p) ELSE <<>>

Alphabet == CASE Family = "val"  -> {"VGet", "VSet", "VPull"}
              [] Family = "coll" -> {"CGet", "CSet", "CGen", "CDel", "CPull"}
              [] Family = "bus"  -> {"BListen", "BCancel", "BSend"}
              [] Family = "rtr"  -> {"RAdd", "RRemove", "RHas", "RGet", "RMake"}
              [] Family = "dflt" -> {"IGen1", "IGen2", "IGet1", "IGet2", "ISet1", "ISet2"}
              [] Family = "opt"  -> {"OSet1", "OSet2", "OGet1", "OGet2"}
              [] OTHER -> {}
Scenarios == CASE Family = "stream" -> { <<"StreamClient", "StreamServer">>, <<"StreamClientCancel", "StreamServer">>,
                                         <<"StreamClientPeek", "StreamServerLate">> }
               [] Family = "group"  -> { <<"GroupAll", "GroupMember", "GroupMember">>, <<"GroupFast", "GroupMember", "GroupMember">> }
               [] OTHER -> [Main -> Alphabet]
\* goroutines that exist only once somebody starts them
StartedAtInit(p) == IF Family \in {"stream", "group"} THEN p = 1 ELSE p \in Main

Code(p) == IF p \in Main THEN Steps(scen[p], p) ELSE HelperSteps(scen[p - N], p - N)

-----------------------------------------------------------------------------
Zero == [q \in All |-> 0]
Join(A, C) == [q \in All |-> IF A[q] >= C[q] THEN A[q] ELSE C[q]]
Tick(V, p) == [V EXCEPT ![p] = @ + 1]

Init ==
  /\ scen \in Scenarios
  /\ pc = [p \in All |-> 1]
  /\ vc = [p \in All |-> [q \in All |-> IF q = p THEN 1 ELSE 0]]
  /\ started = [p \in All |-> StartedAtInit(p)]
  /\ wh = [o \in Objs |-> 0] /\ rdrs = [o \in Objs |-> {}]
  /\ relW = [o \in Objs |-> Zero] /\ relR = [o \in Objs |-> Zero]
  /\ sync = [o \in Objs |-> Zero] /\ cnt = [o \in Objs |-> 0]
  /\ lastW = [x \in {"m0"} |-> [q |-> 0, c |-> 0]]     \* functions from the locations touched so far; the stored
  /\ lastR = [x \in {"m0"} |-> Zero]                   \* message m0 was built before any process started
  /\ ptr = [x \in PtrNames |-> IF \E i \in Insts : x = IC(i, ".byId") THEN InitialOf(CHOOSE i \in Insts : x = IC(i, ".byId"))
                                ELSE IF x = "s.hdr" THEN "nil" ELSE "m0"]      \* what is stored before the processes start
  /\ held = [p \in All |-> "nil"]
  /\ sent = [o \in Objs |-> {}]
  /\ registered = {} /\ snap = [p \in All |-> {}]
  /\ races = {}

\* the locations step s of process p reads / writes in the current state
Reads(p, s) == s.rd \cup s.rdp \cup { ptr[x] : x \in { y \in s.rdp : ptr[y] # "nil" } }
               \cup (IF s.hold # "" THEN {s.hold} ELSE {})
               \cup (IF s.rdh /\ held[p] # "nil" THEN {held[p]} ELSE {})
               \cup (IF s.rds THEN sent[s.o] ELSE {})
Writes(p, s) == s.wr \cup (IF Len(s.set) = 2 THEN {s.set[1]} ELSE {})
                \cup (IF s.wrh /\ held[p] # "nil" THEN {held[p]} ELSE {})

\* races of process p (clock V) reading X / writing Y against the recorded accesses of other processes
Unordered(q, c, V) == q # 0 /\ c > V[q]
RacesOf(p, V, X, Y) ==
  { << x, "write-read", lastW[x].q, p >> : x \in { x \in X \cap DOMAIN lastW : lastW[x].q # p /\ Unordered(lastW[x].q, lastW[x].c, V) } }
  \cup { << y, "write-write", lastW[y].q, p >> : y \in { y \in Y \cap DOMAIN lastW : lastW[y].q # p /\ Unordered(lastW[y].q, lastW[y].c, V) } }
  \cup UNION { { << y, "read-write", q, p >> : q \in { q \in All \ {p} : Unordered(q, lastR[y][q], V) } } : y \in Y \cap DOMAIN lastR }

Enabled(p, s) ==
  CASE s.a = "lock"  -> wh[s.o] = 0 /\ rdrs[s.o] = {}
    [] s.a = "rlock" -> wh[s.o] = 0
    [] s.a = "acq"   -> cnt[s.o] >= s.n
    [] OTHER -> TRUE

Step(p) ==
  /\ started[p] /\ pc[p] <= Len(Code(p))
  /\ LET s == Code(p)[pc[p]]
         skip == s.cond # 0 /\ s.cond \notin snap[p]
     IN IF skip
        THEN /\ pc' = [pc EXCEPT ![p] = @ + 1]
             /\ UNCHANGED << scen, vc, started, wh, rdrs, relW, relR, sync, cnt, lastW, lastR, ptr, held, sent, registered, snap, races >>
        ELSE
        /\ Enabled(p, s)
        /\ LET \* acquire half
               V == CASE s.a = "lock"  -> Join(vc[p], Join(relW[s.o], relR[s.o]))
                      [] s.a = "rlock" -> Join(vc[p], relW[s.o])
                      [] s.a = "acq"   -> Join(vc[p], sync[s.o])
                      [] OTHER -> vc[p]
               X == Reads(p, s)
               Y == Writes(p, s)
               releases == s.a \in {"unlock", "runlock", "rel", "spawn"}
               msg == IF s.pub = "mine" THEN M(p) ELSE s.pub
           IN
           /\ races' = races \cup RacesOf(p, V, X, Y)
           /\ lastW' = [x \in DOMAIN lastW \cup Y |-> IF x \in Y THEN [q |-> p, c |-> V[p]] ELSE lastW[x]]
           /\ lastR' = [x \in DOMAIN lastR \cup X |->
                          IF x \in X THEN [ (IF x \in DOMAIN lastR THEN lastR[x] ELSE Zero) EXCEPT ![p] = V[p] ] ELSE lastR[x]]
           /\ vc' = IF s.a = "spawn"
                    THEN [vc EXCEPT ![p] = Tick(V, p), ![s.n] = Join(@, V)]
                    ELSE [vc EXCEPT ![p] = IF releases THEN Tick(V, p) ELSE V]
           /\ started' = IF s.a = "spawn" THEN [started EXCEPT ![s.n] = TRUE] ELSE started
           /\ wh' = CASE s.a = "lock" -> [wh EXCEPT ![s.o] = p] [] s.a = "unlock" -> [wh EXCEPT ![s.o] = 0] [] OTHER -> wh
           /\ rdrs' = CASE s.a = "rlock" -> [rdrs EXCEPT ![s.o] = @ \cup {p}] [] s.a = "runlock" -> [rdrs EXCEPT ![s.o] = @ \ {p}] [] OTHER -> rdrs
           /\ relW' = IF s.a = "unlock" THEN [relW EXCEPT ![s.o] = Join(@, V)] ELSE relW
           /\ relR' = IF s.a = "runlock" THEN [relR EXCEPT ![s.o] = Join(@, V)] ELSE relR
           /\ sync' = IF s.a = "rel" THEN [sync EXCEPT ![s.o] = Join(@, V)] ELSE sync
           /\ cnt' = IF s.a = "rel" THEN [cnt EXCEPT ![s.o] = @ + 1] ELSE cnt
           /\ ptr' = IF Len(s.set) = 2 THEN [ptr EXCEPT ![s.set[1]] = s.set[2]] ELSE ptr
           /\ held' = IF s.hold # "" THEN [held EXCEPT ![p] = ptr[s.hold]] ELSE held
           /\ sent' = IF msg # "" THEN [sent EXCEPT ![s.o] = @ \cup {msg}] ELSE sent
           /\ registered' = IF s.regme THEN registered \cup {p} ELSE registered
           /\ snap' = IF s.snp THEN [snap EXCEPT ![p] = registered] ELSE snap
           /\ pc' = [pc EXCEPT ![p] = @ + 1]
           /\ UNCHANGED scen

Next == \E p \in All : Step(p)
Spec == Init /\ [][Next]_vars

-----------------------------------------------------------------------------
TypeOK == /\ \A o \in Objs : wh[o] \in All \cup {0} /\ (wh[o] # 0 => rdrs[o] = {})
          /\ \A p \in All : pc[p] \in 1..(Len(Code(p)) + 1)
\* no two conflicting accesses by different processes that the modelled synchronisation leaves unordered
NoRace == races = {}
\* for the variants that keep a defect of the code: the race found is the expected one and nothing else races
RngLocs == {"c.rng"}
StreamLocs == {"s.trailer", "s.closeErr"}
OnlyRngRaces == \A r \in races : r[1] \in RngLocs
OnlyStreamRaces == \A r \in races : r[1] \in StreamLocs
OnlyMessageRaces == \A r \in races : r[1] \in {"m0", "pkg.m0", "m0.1", "m0.2"} \cup { M(p) : p \in Main }
OnlyPkgRaces == \A r \in races : r[1] \in {"pkg.rng"}
OnlyOptionRaces == \A r \in races : r[1] \in {"opt.wmask"}
=============================================================================
