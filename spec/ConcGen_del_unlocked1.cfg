SPECIFICATION Spec
CONSTANTS
  Writers <- W1
  Subs <- S1
  Ids <- I1
  MaxV = 6
  Programs <- DelPrograms
  SubKinds <- Kinds
  InitStores <- PresentStore
  PublishAfterUnlock = FALSE
  CreatedRevalidated = TRUE
  DeleteHoldsLock = FALSE
  SnapHoldsLock = TRUE
  DeleteRechecks = TRUE
  Equiv = "none"
  SubSer = FALSE
  MayCancel = FALSE
  SnapAtCommit = TRUE
  CollectLive = TRUE
INVARIANT EmitSched
CHECK_DEADLOCK FALSE
