------------------------------- MODULE Router -------------------------------
(***************************************************************************)
(* C12, registry: pkg/router.Router as a concurrent object.                *)
(*                                                                         *)
(* The registry maps names to clients (0 = no client).  Add, Remove and    *)
(* Has change / read it atomically; Add and Remove then report the change  *)
(* through the onChange callback as a separate, later step (callbacks run  *)
(* outside the lock).  Get is                                              *)
(*   GetRead      look the name up; a hit returns it;                      *)
(*   GetFallback  ask the fallback (its client is returned, not kept);     *)
(*   GetFactory   ask the factory for a new client;                        *)
(*   GetInsert    under the lock look again: somebody's client is there -> *)
(*                return that one, else remember the new client;           *)
(*   GetNotify    report the remembered client (Auto) and return it.       *)
(* All of this is one pure step function, LocalStep, on (configuration,    *)
(* registry, operation, the stage the caller is in); processes running     *)
(* programs of operations take LocalStep steps in any interleaving.        *)
(*                                                                         *)
(*   MC    (RouterMC.cfg)   concurrent Gets with an interleaved Add/Remove *)
(*         process: single commit, clients returned were registered,       *)
(*         NotFound only without a source, the callbacks are exactly the   *)
(*         transitions, the registry is the fold of the transitions.       *)
(*         With Recheck = FALSE (insert without looking again) TLC must     *)
(*         find SingleCommit violated: the invariant is not vacuous.       *)
(*   Gen   (RouterGen.cfg)  random configurations, programs and complete   *)
(*         schedules (sequential and concurrent), printed as CASE lines;   *)
(*         every step of a schedule ends where the harness has a handle    *)
(*         on the real code: the fallback, the factory (entry and exit)    *)
(*         and the callback are harness functions, used as gates.          *)
(*   Trace (RouterTrace.tla) each logged step of the real router against   *)
(*         LocalStep.                                                      *)
(***************************************************************************)
EXTENDS Integers, Sequences, FiniteSets, TLC, Json

CONSTANTS NGetters,   \* MC: processes 1..NGetters issue one Get each; process 0 mutates
          MaxMut,     \* MC: length of the mutator's program
          Recheck,    \* TRUE = the design; FALSE = GetInsert does not look again
          Precheck,   \* FALSE = the design: Remove looks the name up and deletes it in one critical section;
                      \* TRUE = the refuted deviation: RemoveCheck (Has, read lock) . RemoveDelete (write lock,
                      \* delete whatever is there) . RemoveNotify (always)
          NMutators,  \* MC: 1, or 2 = a second process running one Add/Remove (overlapping Removes of a name)
          NCases      \* Gen: number of cases

VARIABLE st
NameSeq == <<"a", "b">>     \* the names
Names == { NameSeq[j] : j \in 1..Len(NameSeq) }
Range(q) == { q[j] : j \in 1..Len(q) }
Has(tbl, n) == \E j \in 1..Len(tbl) : tbl[j].n = n
Lk(tbl, n) == tbl[CHOOSE j \in 1..Len(tbl) : tbl[j].n = n].c

----------------------------------------------------------------------------
(* The step function                                                       *)
NoRet == [done |-> FALSE, c |-> 0, code |-> "OK", b |-> FALSE]
Ret(c, code) == [done |-> TRUE, c |-> c, code |-> code, b |-> FALSE]
RetB(b) == [done |-> TRUE, c |-> 0, code |-> "OK", b |-> b]
NoChg == [n |-> "", old |-> 0, new |-> 0, auto |-> FALSE]
Chg(n, old, new, auto) == [n |-> n, old |-> old, new |-> new, auto |-> auto]

\* cfg = [hasfb, fb (sequence of [n, c]: what the fallback knows), hasfac, facok (names the factory accepts), hascb]
\* reg: name -> client;  op = [op, n];  stage: "idle" | "fb" | "fac" | "ins" | "cb";  made: the client the
\* factory made (Get) or the previous client (Add / Remove);  pend: the change to report;  fresh: the
\* identity of a client created in this step.
\* Result: the registry after, where the caller is next (stage "idle" with ret.done = the operation has
\* returned), the changes reported in this step (chg), the transition committed (tr), whether fresh was
\* used, the name of the step, and where a returned client came from.
LocalStep(cfg, reg, op, stage, made, pend, fresh) ==
  LET n == op.n
      base == [reg |-> reg, stage |-> "idle", made |-> 0, pend |-> NoChg, ret |-> NoRet, chg |-> <<>>,
               tr |-> <<>>, used |-> FALSE, act |-> "", src |-> ""]
      \* nothing in the registry (from = "read") / nothing from the fallback (from = "fb")
      Miss(from, act) ==
        IF from = "read" /\ cfg.hasfb THEN [base EXCEPT !.stage = "fb", !.act = act]
        ELSE IF cfg.hasfac THEN [base EXCEPT !.stage = "fac", !.act = act]
        ELSE [base EXCEPT !.ret = Ret(0, "NotFound"), !.act = act]
      \* a committed change is reported in a later step when there is a callback
      Commit(r, change, act) ==
        IF cfg.hascb THEN [r EXCEPT !.stage = "cb", !.pend = change, !.act = act]
        ELSE [r EXCEPT !.act = act]
  IN
  CASE op.op = "Get" /\ stage = "idle" ->
         IF reg[n] # 0 THEN [base EXCEPT !.ret = Ret(reg[n], "OK"), !.act = "GetRead", !.src = "reg"]
         ELSE Miss("read", "GetRead")
    [] op.op = "Get" /\ stage = "fb" ->
         IF Has(cfg.fb, n) THEN [base EXCEPT !.ret = Ret(Lk(cfg.fb, n), "OK"), !.act = "GetFallback", !.src = "fb"]
         ELSE Miss("fb", "GetFallback")
    [] op.op = "Get" /\ stage = "fac" ->
         IF n \in Range(cfg.facok) THEN [base EXCEPT !.stage = "ins", !.made = fresh, !.used = TRUE, !.act = "GetFactory"]
         ELSE [base EXCEPT !.ret = Ret(0, "NotFound"), !.act = "GetFactory"]
    [] op.op = "Get" /\ stage = "ins" ->
         IF Recheck /\ reg[n] # 0
         THEN [base EXCEPT !.ret = Ret(reg[n], "OK"), !.act = "GetInsert", !.src = "reg"]
         ELSE Commit([base EXCEPT !.reg = [reg EXCEPT ![n] = made], !.made = made,
                                  !.tr = <<Chg(n, reg[n], made, TRUE)>>,
                                  !.ret = IF cfg.hascb THEN NoRet ELSE Ret(made, "OK"), !.src = "fac"],
                     Chg(n, 0, made, TRUE), "GetInsert")
    [] op.op = "Get" /\ stage = "cb" ->
         [base EXCEPT !.ret = Ret(made, "OK"), !.chg = <<pend>>, !.act = "GetNotify", !.src = "fac"]
    [] op.op = "Add" /\ stage = "idle" ->
         Commit([base EXCEPT !.reg = [reg EXCEPT ![n] = fresh], !.made = reg[n], !.used = TRUE,
                             !.tr = <<Chg(n, reg[n], fresh, FALSE)>>,
                             !.ret = IF cfg.hascb THEN NoRet ELSE Ret(reg[n], "OK")],
                Chg(n, reg[n], fresh, FALSE), "AddCommit")
    [] op.op = "Add" /\ stage = "cb" ->
         [base EXCEPT !.ret = Ret(made, "OK"), !.chg = <<pend>>, !.act = "AddNotify"]
    [] op.op = "Remove" /\ stage = "idle" /\ Precheck ->
         IF reg[n] = 0 THEN [base EXCEPT !.ret = Ret(0, "OK"), !.act = "RemoveCheck"]
         ELSE [base EXCEPT !.stage = "del", !.act = "RemoveCheck"]
    [] op.op = "Remove" /\ stage = "del" ->      \* (only with Precheck) the name may be gone by now; it is reported all the same
         Commit([base EXCEPT !.reg = [reg EXCEPT ![n] = 0], !.made = reg[n],
                             !.tr = IF reg[n] # 0 THEN <<Chg(n, reg[n], 0, FALSE)>> ELSE <<>>,
                             !.ret = IF cfg.hascb THEN NoRet ELSE Ret(reg[n], "OK")],
                Chg(n, reg[n], 0, FALSE), "RemoveDelete")
    [] op.op = "Remove" /\ stage = "idle" ->
         IF reg[n] = 0 THEN [base EXCEPT !.ret = Ret(0, "OK"), !.act = "RemoveCommit"]     \* no transition, no callback
         ELSE Commit([base EXCEPT !.reg = [reg EXCEPT ![n] = 0], !.made = reg[n],
                                  !.tr = <<Chg(n, reg[n], 0, FALSE)>>,
                                  !.ret = IF cfg.hascb THEN NoRet ELSE Ret(reg[n], "OK")],
                     Chg(n, reg[n], 0, FALSE), "RemoveCommit")
    [] op.op = "Remove" /\ stage = "cb" ->
         [base EXCEPT !.ret = Ret(made, "OK"), !.chg = <<pend>>, !.act = "RemoveNotify"]
    [] op.op = "Has" -> [base EXCEPT !.ret = RetB(reg[n] # 0), !.act = "Has"]

----------------------------------------------------------------------------
(* Processes                                                               *)
\* st = [cfg, init, reg, next, procs, log, trans, done, mut]
Procs(s) == DOMAIN s.procs
Finished(s, p) == s.procs[p].idx > Len(s.procs[p].prog)
Cur(s, p) == s.procs[p].prog[s.procs[p].idx]
OutOf(s, p) == LET pr == s.procs[p] IN LocalStep(s.cfg, s.reg, Cur(s, p), pr.stage, pr.made, pr.pend, s.next)

Step(s, p) ==
  LET pr == s.procs[p]
      r == OutOf(s, p)
      op == Cur(s, p)
  IN [s EXCEPT !.reg = r.reg,
               !.next = IF r.used THEN s.next + 1 ELSE s.next,
               !.procs[p] = [pr EXCEPT !.stage = r.stage, !.made = r.made, !.pend = r.pend,
                                       !.idx = IF r.ret.done THEN pr.idx + 1 ELSE pr.idx],
               !.log = s.log \o r.chg,
               !.trans = s.trans \o r.tr,
               !.done = IF r.ret.done THEN Append(s.done, [p |-> p, op |-> op, ret |-> r.ret, src |-> r.src]) ELSE s.done,
               !.mut = IF r.tr # <<>> /\ ~r.tr[1].auto THEN [s.mut EXCEPT ![op.n] = TRUE] ELSE s.mut]

Proc(prog) == [prog |-> prog, idx |-> 1, stage |-> "idle", made |-> 0, pend |-> NoChg]
Start(cfg, init, progs) ==
  [cfg |-> cfg, init |-> init, reg |-> init, next |-> 10, procs |-> progs, log |-> <<>>, trans |-> <<>>,
   done |-> <<>>, mut |-> [n \in Names |-> FALSE]]

Fb0 == << [n |-> NameSeq[1], c |-> 101] >>
Cfgs == { [hasfb |-> hf, fb |-> IF hf THEN fb ELSE <<>>, hasfac |-> hc, facok |-> IF hc THEN ok ELSE <<>>, hascb |-> TRUE] :
            hf \in BOOLEAN, fb \in {Fb0, <<>>}, hc \in BOOLEAN, ok \in {NameSeq, <<NameSeq[1]>>} }
Inits == { [n \in Names |-> 0], [n \in Names |-> IF n = NameSeq[1] THEN 1 ELSE 0] }

----------------------------------------------------------------------------
(* MC                                                                      *)
MutOps == { [op |-> o, n |-> n] : o \in {"Add", "Remove"}, n \in Names }
SeqsUpTo(S, k) == UNION { [1..j -> S] : j \in 0..k }
MCProcs == 0..NGetters \cup (IF NMutators = 2 THEN {NGetters + 1} ELSE {})
MCInit == st \in { Start(cfg, init, [p \in MCProcs |-> IF p = 0 THEN Proc(mp) ELSE IF p = NGetters + 1 THEN Proc(mp2)
                                                       ELSE Proc(<<[op |-> "Get", n |-> gn[p]]>>)]) :
                     cfg \in Cfgs, init \in Inits, mp \in SeqsUpTo(MutOps, MaxMut),
                     mp2 \in (IF NMutators = 2 THEN SeqsUpTo(MutOps, 1) ELSE {<<>>}), gn \in [1..NGetters -> Names] }
MCNext == \/ \E p \in Procs(st) : ~Finished(st, p) /\ st' = Step(st, p)
          \/ (\A p \in Procs(st) : Finished(st, p)) /\ UNCHANGED st

Count(q, x) == Cardinality({ j \in 1..Len(q) : q[j] = x })
GetsOf(n) == { j \in 1..Len(st.done) : st.done[j].op = [op |-> "Get", n |-> n] }

\* all first Gets of a name nobody adds or removes return the one committed client
SingleCommit ==
  \A n \in Names : ~st.mut[n] =>
     /\ Cardinality({ j \in 1..Len(st.trans) : st.trans[j].n = n /\ st.trans[j].auto }) <= 1
     /\ \A j \in GetsOf(n) : (st.done[j].ret.code = "OK" /\ st.done[j].src # "fb") => st.done[j].ret.c = st.reg[n]
\* a client returned by Get was registered under that name (or is the fallback's)
ReturnedWasRegistered ==
  \A j \in 1..Len(st.done) : LET d == st.done[j] IN
     (d.op.op = "Get" /\ d.ret.code = "OK") =>
        \/ d.src = "fb" /\ Has(st.cfg.fb, d.op.n) /\ d.ret.c = Lk(st.cfg.fb, d.op.n)
        \/ d.ret.c # 0 /\ (st.init[d.op.n] = d.ret.c \/ \E k \in 1..Len(st.trans) : st.trans[k].n = d.op.n /\ st.trans[k].new = d.ret.c)
\* NotFound only when neither the fallback nor the factory has the name
NotFoundOnlyWithoutSource ==
  \A j \in 1..Len(st.done) : LET d == st.done[j] IN
     (d.op.op = "Get" /\ d.ret.code = "NotFound") =>
        /\ ~(st.cfg.hasfb /\ Has(st.cfg.fb, d.op.n)) /\ ~(st.cfg.hasfac /\ d.op.n \in Range(st.cfg.facok)) /\ d.ret.c = 0
\* the callbacks are exactly the transitions: never one that did not happen, all of them once nobody is
\* between commit and callback (their order may differ: callbacks run outside the lock)
\* every reported change is a transition that happened; a client is handed back by at most one Remove
EveryReportIsATransition == \A j \in 1..Len(st.log) : Count(st.log, st.log[j]) <= Count(st.trans, st.log[j])
OneRemoveReturnsTheClient ==
  \A j, k \in 1..Len(st.done) :
     (j # k /\ st.done[j].op.op = "Remove" /\ st.done[k].op.op = "Remove" /\ st.done[j].ret.c # 0) => st.done[j].ret.c # st.done[k].ret.c
ChangeLogMatches ==
  /\ \A j \in 1..Len(st.log) : Count(st.log, st.log[j]) <= Count(st.trans, st.log[j])
  /\ (\A p \in Procs(st) : st.procs[p].stage # "cb") => \A j \in 1..Len(st.trans) : Count(st.log, st.trans[j]) = Count(st.trans, st.trans[j])
\* the registry is a map: its contents are the fold of the transitions, each transition's old value is
\* what the previous one on that name left
RECURSIVE Fold(_, _)
Fold(reg, q) == IF q = <<>> THEN reg ELSE Fold([reg EXCEPT ![q[1].n] = q[1].new], Tail(q))
RegistryIsFold ==
  /\ st.reg = Fold(st.init, st.trans)
  /\ \A j \in 1..Len(st.trans) : st.trans[j].old = Fold(st.init, SubSeq(st.trans, 1, j - 1))[st.trans[j].n]
\* Add returns the previous client, Remove the removed one, Has and Get agree with the registry
MapReturns ==
  \A p \in Procs(st) : ~Finished(st, p) =>
     LET r == OutOf(st, p)  op == Cur(st, p) IN
     /\ (op.op = "Has" => r.ret.b = (st.reg[op.n] # 0))
     /\ (op.op = "Get" /\ st.procs[p].stage = "idle" /\ st.reg[op.n] # 0 => r.ret = Ret(st.reg[op.n], "OK"))
     /\ (op.op \in {"Add", "Remove"} /\ st.procs[p].stage = "idle" => r.made = st.reg[op.n])
     /\ (op.op = "Remove" /\ st.procs[p].stage = "idle" => r.reg[op.n] = 0)

----------------------------------------------------------------------------
(* Gen                                                                     *)
R(S) == RandomElement(S)
Flip(z, pct) == RandomElement(1..100) <= pct
W(q) == q[RandomElement(1..Len(q))]
RandOp(z) == [op |-> W(<<"Get", "Get", "Get", "Add", "Add", "Remove", "Remove", "Has">>), n |-> R(Names)]
RandProg(z, maxlen) == [j \in 1..R(1..maxlen) |-> RandOp(z)]
RandCfg(z) ==
  LET hf == Flip(z, 50)  hc == Flip(z, 65) IN
  [hasfb |-> hf, fb |-> IF hf THEN R({Fb0, <<>>, <<[n |-> NameSeq[1], c |-> 101], [n |-> NameSeq[2], c |-> 102]>>}) ELSE <<>>,
   hasfac |-> hc, facok |-> IF hc THEN R({NameSeq, <<NameSeq[1]>>, <<NameSeq[2]>>, <<>>}) ELSE <<>>, hascb |-> Flip(z, 85)]
RandInit(z) == [n \in Names |-> IF Flip(z, 30) THEN 1 + (CHOOSE j \in 1..Len(NameSeq) : NameSeq[j] = n) ELSE 0]

\* mode "seq": an operation runs to completion before the next starts; "conc": any process steps;
\* "race": the processes all Get the same new name; "rmrace": they all Remove the same present name
RECURSIVE Run(_, _, _)
Run(s, sched, mode) ==
  LET live == { p \in Procs(s) : ~Finished(s, p) }
      mid  == { p \in live : s.procs[p].stage # "idle" }
  IN IF live = {} THEN sched
     ELSE LET p == IF mode = "seq" /\ mid # {} THEN R(mid) ELSE R(live)
              r == OutOf(s, p)
          IN Run(Step(s, p), Append(sched, [p |-> p, act |-> r.act, fresh |-> IF r.used THEN s.next ELSE 0]), mode)

Case(z) ==
  LET mode == W(<<"seq", "conc", "conc", "race", "race", "rmrace">>)
      np == IF mode = "seq" THEN 1 ELSE R(2..3)
      n0 == R(Names)
      progs == IF mode = "rmrace" THEN [p \in 1..np |-> Proc(<<[op |-> "Remove", n |-> n0]>> \o (IF Flip(z, 30) THEN <<RandOp(z)>> ELSE <<>>))]
               ELSE IF mode = "race" THEN [p \in 1..np |-> Proc(<<[op |-> "Get", n |-> n0]>> \o (IF Flip(z, 30) THEN <<RandOp(z)>> ELSE <<>>))]
               ELSE [p \in 1..np |-> Proc(RandProg(z, IF mode = "seq" THEN 6 ELSE 3))]
      cfg == IF mode = "race" THEN [RandCfg(z) EXCEPT !.hasfac = TRUE, !.facok = NameSeq] ELSE RandCfg(z)
      s0 == Start(cfg, IF mode = "race" THEN [n \in Names |-> 0]
                       ELSE IF mode = "rmrace" THEN [n \in Names |-> IF n = n0 THEN 5 ELSE 0] ELSE RandInit(z), progs)
  IN [id |-> z, mode |-> mode, cfg |-> cfg, init |-> s0.init,
      progs |-> [p \in 1..np |-> progs[p].prog], sched |-> Run(s0, <<>>, mode)]

GenInit == st \in { Case(z) : z \in 1..NCases }
GenNext == UNCHANGED st
EmitCase == PrintT("CASE " \o ToJson(st))
=============================================================================
