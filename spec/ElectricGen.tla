---------------------------- MODULE ElectricGen ----------------------------
(***************************************************************************)
(* Gen use of Electric.tla: TLC walks the specification's Next relation    *)
(* and prints operation sequences for the harness to replay on the real    *)
(* Model (and its gRPC servers).  Two generators:                          *)
(*                                                                         *)
(*  exhaustive (ElectricGenExh.cfg): breadth-first over every sequence of  *)
(*    at most Depth operations of the alphabet ExhOps in which every       *)
(*    operation but the last one succeeds and changes the state (a refused *)
(*    or idle operation in the middle adds nothing: the harness checks it  *)
(*    as the LAST operation of the shorter sequence).  Only the last step  *)
(*    of each printed sequence is logged and checked (lastOnly): each      *)
(*    (sequence, final operation) pair is checked exactly once.            *)
(*  random (ElectricGenRand.cfg): NRandom walks of WalkLen operations, the *)
(*    operation drawn with regard to the specification state reached so    *)
(*    far (ids mostly among the modes that exist), all fields random, the  *)
(*    clock advancing by 0 or 1 before each call.  Every step is checked.  *)
(*                                                                         *)
(* Ids: "a","b","c","d" are given to AddMode; "g<k>" stands for the id the *)
(* device allocated in its k-th successful CreateMode (the harness keeps   *)
(* the table from g<k> to the concrete random id).                         *)
(* No verdict is taken here.                                               *)
(***************************************************************************)
EXTENDS Electric, Json

CONSTANTS Depth, NRandom, WalkLen, AddIds, RandAddIds, MaxGen, MaxModes

VARIABLES hist, live, gens, ini   \* ini: the configuration the model is constructed with
gvars == <<st, now, hist, live, gens, ini>>

GId(k) == "g" \o ToString(k)
NextGens(g, op, r) == IF op.op = "Create" /\ r.err = "OK" THEN g + 1 ELSE g

----------------------------------------------------------------------------
\* exhaustive alphabet (the clock always advances one tick before the call)
RefIds(g) == AddIds \cup { GId(k) : k \in 1..g }
ExhOps(g) ==
       { MkOp("Add", i, n, 0, "nil", FALSE, NoStart, 1) : i \in AddIds, n \in BOOLEAN }
  \* a mode that already carries a start_time (a copy of some active-mode readout)
  \cup { MkOp("Add", "a", FALSE, 0, "nil", FALSE, 0, 1) }
  \* read-modify-write: GetActiveMode / the listed mode, title edited, written back without a mask
  \cup { MkOpS("Update", "a", FALSE, 1, "nil", FALSE, NoStart, 1, "active") }
  \cup { MkOpS("Update", "a", FALSE, 2, "nil", FALSE, NoStart, 1, "listed") }
  \cup (IF g < MaxGen THEN { MkOp("Create", "", n, 0, "nil", FALSE, NoStart, 1) : n \in BOOLEAN } ELSE {})
  \cup { MkOp("Update", i, n, 0, m, FALSE, NoStart, 1) : i \in RefIds(g), n \in BOOLEAN, m \in {"nil", "normal"} }
  \cup { MkOp("Update", i, FALSE, 1, "title", FALSE, NoStart, 1) : i \in RefIds(g) }
  \cup { MkOp("Delete", i, FALSE, 0, "nil", am, NoStart, 1) : i \in RefIds(g), am \in BOOLEAN }
  \cup { MkOp("SetActive", i, FALSE, 0, "nil", FALSE, NoStart, 1) : i \in RefIds(g) }
  \cup { MkOp("Change", i, FALSE, 0, "nil", FALSE, NoStart, 1) : i \in RefIds(g) }
  \cup { MkOp("Clear", "", FALSE, 0, "nil", FALSE, NoStart, 1) }

\* initial configurations (constructor options WithInitialMode / WithInitialActiveMode) of the
\* exhaustive generator: the empty model to the full Depth, three constructed ones two steps less
IMode(id, n) == [id |-> id, normal |-> n, title |-> 0, start |-> NoStart]
IAct(id, n) == [id |-> id, normal |-> n, title |-> 0, start |-> NoStart]
ExhInits == { EmptyInit,
              [modes |-> <<IMode("a", TRUE), IMode("b", FALSE)>>, active |-> IAct("a", TRUE)],
              [modes |-> <<IMode("a", TRUE), IMode("b", FALSE)>>, active |-> Dummy],
              [modes |-> <<IMode("a", FALSE), IMode("b", TRUE)>>, active |-> IAct("a", FALSE)] }
DepthOf(i) == IF i = EmptyInit THEN Depth ELSE Depth - 2
ExhInit == /\ ini \in ExhInits /\ st = StateFrom(ini)
           /\ now = 0 /\ hist = <<>> /\ live = TRUE /\ gens = 0
ExhNext ==
  /\ live /\ Len(hist) < DepthOf(ini) /\ UNCHANGED ini
  /\ \E op \in ExhOps(gens) :
       LET r == Step(st, now + op.dt, op, GId(gens + 1)) IN
       /\ st' = r.post /\ now' = now + op.dt /\ hist' = Append(hist, op)
       /\ gens' = NextGens(gens, op, r)
       /\ live' = (r.err = "OK" /\ r.post # st)

----------------------------------------------------------------------------
\* random walks
R(S) == RandomElement(S)
Kinds == <<"Add", "Add", "Create", "Update", "Update", "Update", "Delete", "Delete",
           "SetActive", "Change", "Change", "Clear", "Clear">>
RandOp(z, s, g) ==
  LET k0 == Kinds[R(1..Len(Kinds))]
      \* an empty table mostly gets a mode first; a full one (MaxModes) no further mode
      kind == IF DOMAIN s.modes = {} /\ R(1..10) <= 8 THEN R({"Add", "Create"})
              ELSE IF Cardinality(DOMAIN s.modes) >= MaxModes /\ k0 \in {"Add", "Create"} THEN "Delete"
              ELSE k0
      pool == RandAddIds \cup { GId(k) : k \in 1..(g + 1) }
      \* Add wants a free id most of the time, the others an id that exists
      \* (AddMode only ever gets ids of RandAddIds: "g<k>" names what the device allocates)
      want == IF kind = "Add" THEN RandAddIds \ DOMAIN s.modes ELSE DOMAIN s.modes
      id == IF want # {} /\ R(1..10) <= 7 THEN R(want) ELSE IF kind = "Add" THEN R(RandAddIds) ELSE R(pool)
      \* Add / Update: every third one writes back what the client read (the active mode, the listed
      \* mode); a write-back replaces the whole message (no mask)
      src == IF kind \in {"Add", "Update"} /\ R(1..3) = 1 THEN R({"active", "listed"}) ELSE "lit"
  IN MkOpS(kind, IF kind \in {"Create", "Clear"} THEN "" ELSE id,
           R(1..10) <= 4, R(Titles), IF kind = "Update" /\ src = "lit" THEN R(Masks) ELSE "nil", R(BOOLEAN),
           IF kind \in {"SetActive", "Add", "Create", "Update"} /\ R(1..3) = 1 THEN R(0..3) ELSE NoStart, R({0, 1}),
           src)

RECURSIVE Walk(_, _, _, _, _)
Walk(z, s, t, g, n) ==
  IF n = 0 THEN <<>>
  ELSE LET op == RandOp(z, s, g)
           r == Step(s, t + op.dt, op, GId(g + 1))
       IN <<op>> \o Walk(z, r.post, t + op.dt, NextGens(g, op, r), n - 1)

\* (gens = -1 marks a finished random walk: no successors, every step is logged)
\* 40 % of the walks start from a constructed model: up to 3 initial modes, at most one normal, now and
\* then one that carries a start_time, the active mode blank or a copy of one of them
RandIni(z) ==
  IF R(1..10) > 4 THEN EmptyInit
  ELSE LET ids == R({ S \in SUBSET RandAddIds : Cardinality(S) \in 1..3 })
           nrm == IF R(1..3) = 1 THEN "" ELSE R(ids)
           RECURSIVE Build(_)
           Build(S) == IF S = {} THEN <<>>
                       ELSE LET i == CHOOSE i \in S : TRUE
                            IN <<[id |-> i, normal |-> i = nrm, title |-> R(Titles),
                                  start |-> IF R(1..5) = 1 THEN 0 ELSE NoStart]>> \o Build(S \ {i})
           ms == Build(ids)
           act == IF R(1..3) = 1 THEN Dummy
                  ELSE LET m == ms[R(1..Len(ms))]
                       IN [id |-> m.id, normal |-> m.normal, title |-> m.title, start |-> IF R(1..4) = 1 THEN 0 ELSE NoStart]
       IN [modes |-> ms, active |-> act]
RandProg(z) == LET i == RandIni(z) IN [ini |-> i, ops |-> Walk(z, StateFrom(i), 0, 0, WalkLen)]
RandInit == /\ st = InitState /\ now = 0 /\ live = FALSE /\ gens = -1
            /\ \E prog \in { RandProg(k) : k \in 1..NRandom } : ini = prog.ini /\ hist = prog.ops
RandNext == UNCHANGED gvars

\* both generators in one TLC run (ElectricGenBoth.cfg)
BothInit == ExhInit \/ RandInit
EmitCase == Len(hist) > 0 => PrintT("CASE " \o ToJson([init |-> ini, ops |-> hist, lastOnly |-> gens >= 0]))
=============================================================================
