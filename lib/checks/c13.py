"""C13: the in-process wrapper (pkg/wrap) is indistinguishable from a real gRPC connection.

spec/Wrap.tla gives, for a joint client/server call script, the set of transcripts a gRPC client may
observe.  TLC model-checks the spec (WrapMC), generates well-matched scripts for the five call shapes
(WrapGen), the harness `wrapx` runs every script through wrap.ServerToClient and through a real
grpc.Server on bufconn against one scripted TestApiServer, and TLC (WrapTrace) requires both
transcripts to be in the specification's set."""
import collections

import vf


def fmt_script(o):
    def one(s):
        arg = ""
        if s["v"] or s["md"] or s["code"]:
            arg = "(%s%s)" % (s["v"] or s["md"] or "", s["code"])
        return "%s|%s%s%s" % (s["c"], s["s"], arg, "!" if s["j"] else "")
    return o["shape"] + ": " + " ".join(one(s) for s in o["steps"])


def summary(t):
    return {"msgs": t["msgs"], "term": t["term"], "hdrs": t["hdrs"], "trls": t["trls"], "srecv": t["srecv"],
            "reqmd": t["reqmd"], "alias": t["alias"], "hang": t["hang"], "leak": t["leak"],
            "leakdump": t.get("leakdump", ""), "ops": t["ops"]}


def run(ctx):
    thorough = ctx.tier == "thorough"
    ncases = 50000 if thorough else 2500
    maxmsgs = 5 if thorough else 3
    maxlen = 22 if thorough else 14

    ctx.mc("WrapMC", "WrapMC.cfg", consts={"MaxSteps": 8 if thorough else 6, "MaxMsgs": 2},
           workers=vf.NCPU, timeout=3000, deadlock=False)

    # the deviation "a send hands over the sender's own message object" must be refuted by the same invariants
    dev = ctx.tlc("WrapMC", "WrapMC_handover.cfg", consts={"MaxSteps": 5, "MaxMsgs": 2}, workers=4, timeout=600,
                  deadlock=False)
    if not dev.violated:
        raise vf.Inconclusive("deviation HandsOverSendersMessage was not refuted by WrapMC:\n" + dev.out[-2000:])
    ctx.cov["deviation_HandsOverSendersMessage_refuted_by"] = dev.violated
    dev = ctx.tlc("WrapMC", "WrapMC_latesethdr.cfg", consts={"MaxSteps": 5, "MaxMsgs": 2}, workers=4, timeout=600,
                  deadlock=False)
    if not dev.violated:
        raise vf.Inconclusive("deviation LateSetHeaderJoins was not refuted by WrapMC:\n" + dev.out[-2000:])
    ctx.cov["deviation_LateSetHeaderJoins_refuted_by"] = dev.violated

    gen = ctx.tlc("WrapGen", "WrapGen.cfg", consts={"NCases": ncases, "MaxMsgs": maxmsgs, "MaxLen": maxlen, "CxPct": 7, "DlPct": 15},
                  workers=4, timeout=1800)
    cases = sorted(gen.cases(), key=lambda c: c["n"])
    calls = [c for c in cases if c["kind"] == "call"]
    probes = [c for c in cases if c["kind"] == "probe"]
    if len(calls) < ncases // 2 or len(probes) < 20:
        raise vf.Inconclusive("Gen produced only %d scripts and %d refused calls\n%s" % (len(calls), len(probes), gen.out[-2000:]))
    cpath = ctx.write_ndjson("scripts.ndjson", cases)
    obs_path = ctx.path("obs.ndjson")
    p = ctx.run_harness(["-cases", cpath, "-out", obs_path], timeout=3000, cmd="wrapx", check=False)
    if p.crash:
        cur = p.crash["current"] or {}
        ctx.violation("C13/wrap/crash/%s" % cur.get("shape", "unknown"),
                      "the process died while script %s was running: %s" % (cur.get("n"), p.crash["message"]), p.crash)
        return
    if p.returncode != 0:
        raise vf.Inconclusive("harness wrapx failed rc=%d:\n%s" % (p.returncode, p.stdout[-4000:]))
    obs = ctx.read_ndjson(obs_path)
    if len(obs) != len(cases):
        # the harness stops when goroutines pile up; what it wrote is still judged below
        ctx.cov["notes"].append("harness stopped after %d of %d cases" % (len(obs), len(cases)))

    tr = ctx.tlc("WrapTrace", "WrapTrace.cfg", workers=1, files={"obs.ndjson": obs_path}, timeout=3000)
    if not any(l.startswith('"CHECKED %d"' % len(obs)) for l in tr.out.splitlines()):
        raise vf.Inconclusive("trace check did not cover all %d observations:\n%s" % (len(obs), tr.out[-3000:]))
    skipped = [int(l.split()[1].strip('"')) for l in tr.out.splitlines() if l.startswith('"SKIPPED ')]
    ambiguous = [int(l.split()[1].strip('"')) for l in tr.out.splitlines() if l.startswith('"AMBIGUOUS ')]

    ncall = sum(1 for o in obs if o["kind"] == "call")
    ctx.count(2 * ncall + (len(obs) - ncall))
    ctx.cov["traces_validated_against_impl"] += 2 * ncall
    ctx.cov["scripts"] = ncall
    ctx.cov["refused_calls"] = len(obs) - ncall
    ctx.cov["scripts_with_more_than_one_allowed_transcript"] = ambiguous[0] if ambiguous else 0
    ctx.cov["scripts_skipped_deadline_fired_early"] = skipped[0] if skipped else 0
    if skipped and skipped[0] > max(5, ncall // 100):
        raise vf.Inconclusive("%d deadline scripts could not be run on this machine (deadline kept firing early)" % skipped[0])

    ref_bad = []
    by_sig = collections.OrderedDict()
    for b in tr.cases("BAD "):
        o = obs[b["line"] - 1]
        if b["ref"]:
            ref_bad.append((b, o))
        for f in b["fails"]:
            clause, _, tag = f.partition(":")
            shape = o["shape"] if o["kind"] == "call" else "refused"
            sig = "C13/wrap/%s/%s/%s" % (tag, clause, shape)     # <site>/<scenario of the script>/<clause>/<shape>
            by_sig.setdefault(sig, []).append((b, o, clause))
    if ref_bad:
        b, o = ref_bad[0]
        raise vf.Inconclusive(
            "the specification does not describe the reference (real gRPC over bufconn) on %d scripts, e.g. %s: %s\n"
            "  script: %s\n  observed: %s" % (len(ref_bad), b["ref"], "probe" if o["kind"] == "probe" else "",
                                            fmt_script(o) if o["kind"] == "call" else o, summary(o["g"])))
    for sig, lst in by_sig.items():
        b, o, clause = min(lst, key=lambda x: len(x[1]["steps"]))
        if o["kind"] == "call":
            what = ("%s of the wrapped call is not what the specification (and the real gRPC connection) allows "
                    "[%d scripts]; shortest: %s" % (clause, len(lst), fmt_script(o)))
            wit = {"script": fmt_script(o), "case": {k: o[k] for k in ("n", "shape", "dl", "req", "steps")},
                   "through_wrapper": summary(o["w"]), "through_grpc": summary(o["g"]), "scripts_failing": len(lst)}
        else:
            what = "refused call %s: %s" % ({k: o[k] for k in ("via", "method", "svc", "cs", "ss")}, o["w"]["term"])
            wit = {"probe": {k: o[k] for k in ("via", "method", "svc", "cs", "ss")}, "through_wrapper": o["w"]["term"],
                   "through_grpc": o["g"]["term"]}
        ctx.violation(sig, what, wit)

    shapes = collections.Counter()
    for o in obs:
        if o["kind"] != "call":
            ctx.distinct(("probe", o["via"], o["method"], o["svc"], o["cs"], o["ss"]))
            continue
        steps = o["steps"]
        nontrivial = any(s["c"] in ("cancel", "deadline") or s["s"] in ("send", "sethdr", "sendhdr", "settrl")
                         or s["c"] == "send" or (s["s"] == "return" and s["code"] != "OK") for s in steps)
        if nontrivial:
            ctx.distinct((o["shape"], [(s["c"], s["s"], s["v"], s["md"], s["code"], s["x"]) for s in steps]))
        shapes[o["shape"]] += 1
    ctx.cov["scripts_by_shape"] = dict(shapes)
    ctx.cov["scripts_with_context_end"] = sum(1 for o in obs if o["kind"] == "call" and
                                              any(s["c"] in ("cancel", "deadline") for s in o["steps"]))
    for o in [o for o in obs if o["kind"] == "call"][:400:80]:
        ctx.sample({"script": fmt_script(o), "through_wrapper": {k: o["w"][k] for k in ("msgs", "term", "hdrs", "trls")},
                    "through_grpc": {k: o["g"][k] for k in ("msgs", "term", "hdrs", "trls")}})
    ctx.cov["rule"] = ("scripts are random walks (TLC, spec/WrapGen.tla) through the grammar of well-matched joint "
                       "client/server scripts of spec/Wrap.tla: shapes unary, server-stream, client-stream, bidi and unary "
                       "through NewStream; 0..%d messages each way; SetHeader/SendHeader/SetTrailer, any status, half-close, "
                       "cancel or deadline (half of them on a context with a cause: WithCancelCause / WithTimeoutCause) wherever "
                       "the grammar allows (also before the first server message), after which a "
                       "handler that has seen its context end may carry on with SetHeader/SendHeader/Send/SetTrailer while "
                       "the client reads Header()/Trailer(); the handler keeps writing to (and recycles) every metadata.MD it "
                       "has handed over, the client writes to every MD it was handed; every sender (client and handler) alters "
                       "its message as soon as SendMsg has returned; SetHeader may come at any point, also after the headers went "
                       "out (never visible to the client; error / no error to the handler compared with the connection); a quarter of the calls that run to their end are made "
                       "on a context without outgoing metadata (none, or only incoming metadata of an outer call); a "
                       "blocked client op may stay pending "
                       "over server steps; plus every refused call (unknown method/service, each wrong stream shape).  Each script runs "
                       "through the wrapper and through grpc over bufconn (order of the two ops of a step and small pauses "
                       "drawn from the seed).  non-trivial = a message, metadata, a non-OK status or a context end occurs; "
                       "distinct = distinct (shape, step sequence with all parameters)." % maxmsgs)
    ctx.assumptions.append("scripts are well-matched: every send meets a receiver that is ready, no side relies on buffering")
    ctx.assumptions.append("not asserted: trailers of calls the client ended itself; what the handler observes after the "
                           "client's context ended; Invoke on a streaming method (Unimplemented vs Internal unsettled); "
                           "SendHeader after the handler's headers were written: not generated; the handler's Recv result when "
                           "the client cancels (io.EOF in the wrapper, Canceled over a connection): server-side, not asserted")


MANIFEST = {'engine': "spec/Wrap.tla + WrapMC/WrapGen/WrapTrace.tla (TLC) + harness 'wrapx' (wrap.ServerToClient vs grpc over bufconn)",
 'technique': 'TLA+ specification of the client-visible transcript of a gRPC call as a function of the joint '
              'client/server script (a set where gRPC is timing dependent); TLC model-checks it, generates '
              'well-matched scripts, the harness runs each through the wrapper and through a real gRPC '
              'connection to the same scripted server, TLC requires both transcripts to be in the set',
 'text': 'Wrap.tla defines joint call scripts over rendezvous steps (client: open/invoke, send, close, recv, '
         'header, trailer, cancel, deadline; server: recv, SetHeader, SendHeader, send, SetTrailer, return, wait '
         'for the context) with a grammar of well-matched scripts and a step function giving the possible '
         'transcripts: messages in order, terminal outcome (status code and text, Canceled, DeadlineExceeded), '
         'every header and trailer read, what the server received. TLC model-checks the spec exhaustively up to a '
         'step bound (messages are a prefix of what was sent, unique terminal outcome, headers frozen once '
         'flushed, no dead end in the grammar) and generates thousands of random scripts for the five call '
         'shapes plus all calls that must be refused. The Go harness runs each script against one scripted '
         'TestApiServer twice, through wrap.ServerToClient and through a grpc.Server on bufconn, and also '
         'checks aliasing of messages and of header/trailer metadata across the boundary (both sides keep '
         'writing to what they sent or were handed) and goroutines with pkg/wrap frames left after the call. '
         'TLC evaluates the TLA+ predicates on both transcripts: the real connection must be in the set (binds '
         'the model to the reference, otherwise inconclusive) and so must the wrapper (otherwise violation). '
         'Conformance on the generated scripts plus bounded model checking of the design; not a proof.',
 'note': 'Trusted base: TLC evaluating the TLA+ predicates; grpc-go v1.67.1 over bufconn as the reference; the harness '
         'reporting faithfully what each side observed. The schedule inside a step is sampled, not enumerated. '
         'Not asserted: trailer metadata of calls ended by the client itself, handler-side observations after the '
         'context ended, Invoke on a streaming method, SendHeader after the headers were written.'}
