---------------------------- MODULE Meter ----------------------------
(***************************************************************************)
(* C20, meterpb.Model: a reading [usage, start, end]; start and end are   *)
(* optional times ([has, v], v = ticks of the harness clock).  The        *)
(* constructor makes sure both times are recorded (a time the initial     *)
(* reading supplies is kept, a missing one becomes "now") and keeps the   *)
(* initial usage; RecordReading(v) stores v and moves the end to now,     *)
(* leaving the start where it is; Reset zeroes the usage and sets both    *)
(* times to now.  With a clock that never goes back: start <= end.        *)
(***************************************************************************)
EXTENDS Integers, Sequences

None == [has |-> FALSE, v |-> 0]
Some(x) == [has |-> TRUE, v |-> x]

NoReading == [usage |-> 0, start |-> None, end |-> None]
(* Configuration = the SEQUENCE of resource options handed to NewModel, each *)
(* kind at most once: [kind |-> "clock"] (always there: the harness clock),  *)
(* [kind |-> "init", init |-> reading] (resource.WithInitialValue).  The     *)
(* order does not matter: the reading given is the initial reading.          *)
OptsOf(opts, kind) == SelectSeq(opts, LAMBDA o : o.kind = kind)
HasOpt(opts, kind) == OptsOf(opts, kind) # <<>>
ConfReading(opts) == IF HasOpt(opts, "init") THEN OptsOf(opts, "init")[1].init ELSE NoReading

\* init = the reading handed to the constructor (all absent/zero when none was)
New(init, now) == [usage |-> init.usage,
                   start |-> IF init.start.has THEN init.start ELSE Some(now),
                   end |-> IF init.end.has THEN init.end ELSE Some(now)]
Record(st, now, v) == [usage |-> v, start |-> st.start, end |-> Some(now)]
Reset(st, now) == [usage |-> 0, start |-> Some(now), end |-> Some(now)]

Ordered(st) == st.start.has /\ st.end.has /\ st.start.v <= st.end.v

(* RecordReading is not atomic: it takes its instant `at` from the clock    *)
(* and commits later; another client's write may land in between, leaving  *)
(* the reading `mid`.  The call must then either be refused (and change    *)
(* nothing) or commit a reading that is still consistent: usage and end    *)
(* are the call's, the start is the one stored at commit, start <= end.    *)
(* (MeterConcMC.tla: reading the value BEFORE taking the instant and       *)
(* refusing the commit when the value has changed guarantees this; taking  *)
(* the instant first does not.)                                            *)
ConcurrentRecordOk(mid, at, v, err, post) ==
  IF err # "OK" THEN post = mid ELSE post = Record(mid, at, v) /\ Ordered(post)
=============================================================================
