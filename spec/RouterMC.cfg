INIT MCInit
NEXT MCNext
INVARIANTS SingleCommit ReturnedWasRegistered NotFoundOnlyWithoutSource ChangeLogMatches RegistryIsFold MapReturns
CONSTANTS
  NCases = 0
