package main

import (
	"context"
	"fmt"
	"strings"

	"google.golang.org/grpc"
	"google.golang.org/grpc/codes"
	"google.golang.org/grpc/status"
	"google.golang.org/protobuf/proto"
	"google.golang.org/protobuf/reflect/protoreflect"
	"google.golang.org/protobuf/types/known/durationpb"

	"github.com/smart-core-os/sc-api/go/traits"
	"github.com/smart-core-os/sc-api/go/types"
	"github.com/smart-core-os/sc-golang/pkg/resource"
	"github.com/smart-core-os/sc-golang/pkg/trait/airtemperaturepb"
	"github.com/smart-core-os/sc-golang/pkg/trait/countpb"
	"github.com/smart-core-os/sc-golang/pkg/trait/electricpb"
	"github.com/smart-core-os/sc-golang/pkg/trait/emergencypb"
	"github.com/smart-core-os/sc-golang/pkg/trait/fanspeedpb"
	"github.com/smart-core-os/sc-golang/pkg/trait/hailpb"
	"github.com/smart-core-os/sc-golang/pkg/trait/lightpb"
	"github.com/smart-core-os/sc-golang/pkg/trait/modepb"
	"github.com/smart-core-os/sc-golang/pkg/trait/onoffpb"
	"github.com/smart-core-os/sc-golang/pkg/trait/openclosepb"
	"github.com/smart-core-os/sc-golang/pkg/trait/publicationpb"
	"github.com/smart-core-os/sc-golang/pkg/trait/speakerpb"
	"github.com/smart-core-os/sc-golang/pkg/trait/vendingpb"
	"github.com/smart-core-os/sc-golang/pkg/wrap"
)

// The registry of servers under test.  One entry per (package, server type, construction): how to build the
// server, which (Get, Update, Pull) triple of which service it exposes, 3-4 well-formed resource values that are
// "far apart" (no equivalence tolerance can confuse two of them), optionally values the server's business rules
// are expected to refuse (inputs only: nothing is asserted about them being refused), and how to address a
// sub-resource (hail id, publication id, consumable).
//
// c14.py scans $VERIF_REPO/pkg/trait for model_server.go / memory.go files and compares with `stackx list`:
// a file with Get/Update/Pull methods that is not in this table is reported as uncovered, never as passing.

// stack is one freshly built Wrap(router{names -> Wrap(server)}) plus the inputs for it.
type stack struct {
	conn     grpc.ClientConnInterface // the outer wrapper's connection
	values   []proto.Message
	bad      []proto.Message
	decorate func(method string, req protoreflect.Message) // sets sub-resource ids on Get/Pull requests
	// other deletes (create = false) or creates another record of the collection that holds the addressed record;
	// nil unless the triple addresses one record of a collection (the servers built on Collection.PullID)
	other func(create bool) error
}

type target struct {
	ID      string `json:"id"`
	Pkg     string `json:"pkg"`
	File    string `json:"file"`
	Type    string `json:"type"`
	Service string `json:"service"`
	Update  string `json:"update"`
	Note    string `json:"note,omitempty"`
	build   func(safe bool, names []string) *stack
}

// uncovered servers that have Get/Update/Pull-looking methods but cannot be driven, with the reason.
type uncoveredEntry struct {
	Pkg    string `json:"pkg"`
	File   string `json:"file"`
	Type   string `json:"type"`
	Reason string `json:"reason"`
}

var uncoveredTable = []uncoveredEntry{
	{"presspb", "model_server.go", "ModelServer",
		"implements GetButtonState/UpdateButtonState/PullButtonState, none of which is a PressApi RPC (the service has " +
			"GetPressedState/UpdatePressedState/PullPressedState): every RPC answers Unimplemented, so the server does not expose the resource"},
}

type unwrapper interface {
	UnwrapService() (grpc.ClientConnInterface, grpc.ServiceDesc)
}
type adder interface {
	Add(name string, client any) any
}

const panicMarker = "VERIF-PANIC: "

// recovering returns desc with every handler turned into one that converts a panic of the server into an
// Unknown status carrying panicMarker.  Only used in -safe mode (after the plain stack crashed the process),
// so that the remaining relations can still be checked for a server that panics.
func recovering(desc grpc.ServiceDesc) grpc.ServiceDesc {
	out := desc
	out.Methods = append([]grpc.MethodDesc(nil), desc.Methods...)
	out.Streams = append([]grpc.StreamDesc(nil), desc.Streams...)
	for i := range out.Methods {
		h := out.Methods[i].Handler
		out.Methods[i].Handler = func(srv any, ctx context.Context, dec func(any) error, ic grpc.UnaryServerInterceptor) (res any, err error) {
			defer func() {
				if r := recover(); r != nil {
					res, err = nil, status.Error(codes.Unknown, panicMarker+panicText(r))
				}
			}()
			return h(srv, ctx, dec, ic)
		}
	}
	for i := range out.Streams {
		h := out.Streams[i].Handler
		out.Streams[i].Handler = func(srv any, ss grpc.ServerStream) (err error) {
			defer func() {
				if r := recover(); r != nil {
					err = status.Error(codes.Unknown, panicMarker+panicText(r))
				}
			}()
			return h(srv, ss)
		}
	}
	return out
}

func panicText(r any) string {
	s := fmt.Sprint(r)
	if len(s) > 200 {
		s = s[:200]
	}
	return strings.ReplaceAll(s, "\n", " ")
}

// assemble builds server -> WrapApi(server) -> NewApiRouter{names -> that client} -> WrapApi(router) with the
// package's own generated WrapApi / NewApiRouter.
func assemble[S any, W unwrapper](safe bool, names []string, srv S, wrapApi func(S) W, newRouter func() (adder, S),
	newClient func(grpc.ClientConnInterface) any) grpc.ClientConnInterface {
	var inner any = wrapApi(srv)
	if safe {
		_, desc := wrapApi(srv).UnwrapService()
		inner = newClient(wrap.ServerToClient(recovering(desc), srv))
	}
	r, rs := newRouter()
	for _, n := range names {
		r.Add(n, inner)
	}
	conn, _ := wrapApi(rs).UnwrapService()
	return conn
}

func msgs(ms ...proto.Message) []proto.Message { return ms }

func setStringField(req protoreflect.Message, name, v string) {
	if fd := req.Descriptor().Fields().ByName(protoreflect.Name(name)); fd != nil {
		req.Set(fd, protoreflect.ValueOfString(v))
	}
}

func must[T any](v T, err error) T {
	if err != nil {
		panic(fmt.Sprintf("stackx: target setup failed: %v", err))
	}
	return v
}

func temp(c float64) *types.Temperature { return &types.Temperature{ValueCelsius: c} }

var airTemperatureValues = msgs(
	&traits.AirTemperature{Mode: traits.AirTemperature_HEAT, TemperatureGoal: &traits.AirTemperature_TemperatureSetPoint{TemperatureSetPoint: temp(30)}},
	&traits.AirTemperature{Mode: traits.AirTemperature_COOL, TemperatureGoal: &traits.AirTemperature_TemperatureSetPoint{TemperatureSetPoint: temp(10)}},
	&traits.AirTemperature{Mode: traits.AirTemperature_AUTO, TemperatureGoal: &traits.AirTemperature_TemperatureRange{
		TemperatureRange: &traits.TemperatureRange{Low: temp(15), High: temp(25)}}, AmbientTemperature: temp(40)},
	&traits.AirTemperature{Mode: traits.AirTemperature_ECO, TemperatureGoal: &traits.AirTemperature_TemperatureSetPointDelta{TemperatureSetPointDelta: temp(-5)}},
)

var brightnessValues = msgs(
	&traits.Brightness{LevelPercent: 80},
	&traits.Brightness{LevelPercent: 5},
	&traits.Brightness{LevelPercent: 40, BrightnessTween: &types.Tween{TotalDuration: durationpb.New(0)}},
	&traits.Brightness{LevelPercent: 100},
)

var audioLevelValues = msgs(
	&types.AudioLevel{Gain: 10},
	&types.AudioLevel{Gain: 60, Muted: true},
	&types.AudioLevel{Gain: 95},
	&types.AudioLevel{Gain: 30, Muted: true},
)

func airTemperatureRouter() (adder, traits.AirTemperatureApiServer) {
	r := airtemperaturepb.NewApiRouter()
	return r, r
}
func lightRouter() (adder, traits.LightApiServer) { r := lightpb.NewApiRouter(); return r, r }

var targets = []*target{
	{ID: "airtemperaturepb.ModelServer", Pkg: "airtemperaturepb", File: "model_server.go", Type: "ModelServer",
		Service: "smartcore.traits.AirTemperatureApi", Update: "UpdateAirTemperature",
		build: func(safe bool, names []string) *stack {
			var srv traits.AirTemperatureApiServer = airtemperaturepb.NewModelServer(airtemperaturepb.NewModel())
			return &stack{values: airTemperatureValues, conn: assemble(safe, names, srv, airtemperaturepb.WrapApi, airTemperatureRouter,
				func(cc grpc.ClientConnInterface) any { return traits.NewAirTemperatureApiClient(cc) })}
		}},
	{ID: "airtemperaturepb.MemoryDevice", Pkg: "airtemperaturepb", File: "memory.go", Type: "MemoryDevice",
		Service: "smartcore.traits.AirTemperatureApi", Update: "UpdateAirTemperature",
		build: func(safe bool, names []string) *stack {
			var srv traits.AirTemperatureApiServer = airtemperaturepb.NewMemoryDevice()
			return &stack{values: airTemperatureValues, conn: assemble(safe, names, srv, airtemperaturepb.WrapApi, airTemperatureRouter,
				func(cc grpc.ClientConnInterface) any { return traits.NewAirTemperatureApiClient(cc) })}
		}},
	{ID: "countpb.MemoryDevice", Pkg: "countpb", File: "memory.go", Type: "MemoryDevice",
		Service: "smartcore.traits.CountApi", Update: "UpdateCount",
		build: func(safe bool, names []string) *stack {
			var srv traits.CountApiServer = countpb.NewMemoryDevice()
			return &stack{
				values: msgs(&traits.Count{Added: 10, Removed: 1}, &traits.Count{Added: 200, Removed: 50}, &traits.Count{Added: 3000}, &traits.Count{Removed: 77}),
				conn: assemble(safe, names, srv, countpb.WrapApi, func() (adder, traits.CountApiServer) { r := countpb.NewApiRouter(); return r, r },
					func(cc grpc.ClientConnInterface) any { return traits.NewCountApiClient(cc) })}
		}},
	{ID: "electricpb.ModelServer", Pkg: "electricpb", File: "model_server.go", Type: "ModelServer",
		Service: "smartcore.traits.ElectricApi", Update: "UpdateActiveMode",
		Note: "three modes are created through the model first; values are those modes (UpdateActiveMode selects by id)",
		build: func(safe bool, names []string) *stack {
			model := electricpb.NewModel()
			var vals []proto.Message
			for i, m := range []*traits.ElectricMode{
				{Title: "normal", Normal: true, Voltage: 240, Segments: []*traits.ElectricMode_Segment{{Magnitude: 10}}},
				{Title: "eco", Voltage: 230, Segments: []*traits.ElectricMode_Segment{{Magnitude: 2, Length: durationpb.New(60e9)}, {Magnitude: 1}}},
				{Title: "boost", Description: "max", Voltage: 250, Segments: []*traits.ElectricMode_Segment{{Magnitude: 30}}},
			} {
				_ = i
				vals = append(vals, must(model.CreateMode(m)))
			}
			var srv traits.ElectricApiServer = electricpb.NewModelServer(model)
			return &stack{values: vals,
				bad: msgs(&traits.ElectricMode{Id: "no-such-mode", Title: "ghost"}, &traits.ElectricMode{Title: "no id"}),
				conn: assemble(safe, names, srv, electricpb.WrapApi, func() (adder, traits.ElectricApiServer) { r := electricpb.NewApiRouter(); return r, r },
					func(cc grpc.ClientConnInterface) any { return traits.NewElectricApiClient(cc) })}
		}},
	{ID: "emergencypb.MemoryDevice", Pkg: "emergencypb", File: "memory.go", Type: "MemoryDevice",
		Service: "smartcore.traits.EmergencyApi", Update: "UpdateEmergency",
		build: func(safe bool, names []string) *stack {
			var srv traits.EmergencyApiServer = emergencypb.NewMemoryDevice()
			return &stack{
				values: msgs(&traits.Emergency{Level: traits.Emergency_WARNING, Reason: "smoke"}, &traits.Emergency{Level: traits.Emergency_EMERGENCY, Reason: "fire", Drill: true},
					&traits.Emergency{Level: traits.Emergency_OK, Silent: true}, &traits.Emergency{Level: traits.Emergency_EMERGENCY, Reason: "flood"}),
				conn: assemble(safe, names, srv, emergencypb.WrapApi, func() (adder, traits.EmergencyApiServer) { r := emergencypb.NewApiRouter(); return r, r },
					func(cc grpc.ClientConnInterface) any { return traits.NewEmergencyApiClient(cc) })}
		}},
	{ID: "fanspeedpb.ModelServer", Pkg: "fanspeedpb", File: "model_server.go", Type: "ModelServer",
		Service: "smartcore.traits.FanSpeedApi", Update: "UpdateFanSpeed",
		Note: "default presets; the model has a float tolerance of 0.01 on Pull, values differ by >= 15 (two are outside 0-100); Nudge steps move the percentage by 0.004",
		build: func(safe bool, names []string) *stack {
			var srv traits.FanSpeedApiServer = fanspeedpb.NewModelServer(fanspeedpb.NewModel())
			return &stack{
				// the last two are outside the documented 0-100 range: well-formed, and whether the server accepts them
				// is its business rule - either way the answer must be consistent
				values: msgs(&traits.FanSpeed{Preset: "high"}, &traits.FanSpeed{Percentage: 33}, &traits.FanSpeed{Preset: "low", Direction: traits.FanSpeed_BACKWARD},
					&traits.FanSpeed{Percentage: 100}, &traits.FanSpeed{Percentage: 140}, &traits.FanSpeed{Percentage: -20}),
				bad: msgs(&traits.FanSpeed{Preset: "no-such-preset"}),
				conn: assemble(safe, names, srv, fanspeedpb.WrapApi, func() (adder, traits.FanSpeedApiServer) { r := fanspeedpb.NewApiRouter(); return r, r },
					func(cc grpc.ClientConnInterface) any { return traits.NewFanSpeedApiClient(cc) })}
		}},
	{ID: "hailpb.ModelServer", Pkg: "hailpb", File: "model_server.go", Type: "ModelServer",
		Service: "smartcore.traits.HailApi", Update: "UpdateHail",
		Note: "two hails are created through the model first; Get/Update/Pull address the first by id, the second is deleted/re-created by Other steps",
		build: func(safe bool, names []string) *stack {
			model := hailpb.NewModel()
			h := must(model.CreateHail(&traits.Hail{Origin: &traits.Hail_Location{Name: "L0"}, State: traits.Hail_CALLED}))
			id := h.Id
			otherID := must(model.CreateHail(&traits.Hail{Origin: &traits.Hail_Location{Name: "B0"}, State: traits.Hail_CALLED})).Id
			var srv traits.HailApiServer = hailpb.NewModelServer(model)
			return &stack{
				values: msgs(&traits.Hail{Id: id, Origin: &traits.Hail_Location{Name: "L1"}, Destination: &traits.Hail_Location{Name: "L5"}, State: traits.Hail_CALLED},
					&traits.Hail{Id: id, Origin: &traits.Hail_Location{Name: "L1"}, Destination: &traits.Hail_Location{Name: "L9", DisplayName: "roof"}, State: traits.Hail_BOARDING},
					&traits.Hail{Id: id, Origin: &traits.Hail_Location{Name: "L2"}, State: traits.Hail_DEPARTED},
					&traits.Hail{Id: id, Destination: &traits.Hail_Location{Name: "L3"}, State: traits.Hail_CALLED}),
				bad: msgs(&traits.Hail{Id: "no-such-hail", State: traits.Hail_BOARDING}, &traits.Hail{State: traits.Hail_BOARDING}),
				decorate: func(method string, req protoreflect.Message) { setStringField(req, "id", id) },
				other: func(create bool) error {
					if create {
						o, err := model.CreateHail(&traits.Hail{Origin: &traits.Hail_Location{Name: "B1"}, State: traits.Hail_BOARDING})
						if err == nil {
							otherID = o.Id
						}
						return err
					}
					_, err := model.DeleteHail(otherID, resource.WithAllowMissing(true))
					return err
				},
				conn: assemble(safe, names, srv, hailpb.WrapApi, func() (adder, traits.HailApiServer) { r := hailpb.NewApiRouter(); return r, r },
					func(cc grpc.ClientConnInterface) any { return traits.NewHailApiClient(cc) })}
		}},
	{ID: "lightpb.ModelServer", Pkg: "lightpb", File: "model_server.go", Type: "ModelServer",
		Service: "smartcore.traits.LightApi", Update: "UpdateBrightness",
		Note: "model with two presets",
		build: func(safe bool, names []string) *stack {
			var srv traits.LightApiServer = lightpb.NewModelServer(lightpb.NewModel(
				lightpb.WithPreset(20, &traits.LightPreset{Name: "dim", Title: "Dim"}), lightpb.WithPreset(90, &traits.LightPreset{Name: "bright", Title: "Bright"})))
			vals := append(msgs(&traits.Brightness{Preset: &traits.LightPreset{Name: "dim"}}), brightnessValues...)
			return &stack{values: vals[:4], conn: assemble(safe, names, srv, lightpb.WrapApi, lightRouter,
				func(cc grpc.ClientConnInterface) any { return traits.NewLightApiClient(cc) })}
		}},
	{ID: "lightpb.MemoryDevice", Pkg: "lightpb", File: "memory.go", Type: "MemoryDevice",
		Service: "smartcore.traits.LightApi", Update: "UpdateBrightness",
		Note: "driven with zero tween durations only (no background tweening)",
		build: func(safe bool, names []string) *stack {
			var srv traits.LightApiServer = lightpb.NewMemoryDevice()
			return &stack{values: brightnessValues,
				bad: msgs(&traits.Brightness{LevelPercent: 50, BrightnessTween: &types.Tween{Progress: 40}}),
				conn: assemble(safe, names, srv, lightpb.WrapApi, lightRouter,
					func(cc grpc.ClientConnInterface) any { return traits.NewLightApiClient(cc) })}
		}},
	{ID: "modepb.ModelServer", Pkg: "modepb", File: "model_server.go", Type: "ModelServer",
		Service: "smartcore.traits.ModeApi", Update: "UpdateModeValues",
		build: func(safe bool, names []string) *stack {
			var srv traits.ModeApiServer = modepb.NewModelServer(modepb.NewModel())
			return &stack{
				values: msgs(&traits.ModeValues{Values: map[string]string{"temperature": "whites", "spin": "fast"}},
					&traits.ModeValues{Values: map[string]string{"temperature": "medium", "spin": "slow"}},
					&traits.ModeValues{Values: map[string]string{"temperature": "delicates"}},
					&traits.ModeValues{Values: map[string]string{"spin": "auto", "temperature": "whites"}}),
				conn: assemble(safe, names, srv, modepb.WrapApi, func() (adder, traits.ModeApiServer) { r := modepb.NewApiRouter(); return r, r },
					func(cc grpc.ClientConnInterface) any { return traits.NewModeApiClient(cc) })}
		}},
	{ID: "onoffpb.ModelServer", Pkg: "onoffpb", File: "model_server.go", Type: "ModelServer",
		Service: "smartcore.traits.OnOffApi", Update: "UpdateOnOff",
		build: func(safe bool, names []string) *stack {
			var srv traits.OnOffApiServer = onoffpb.NewModelServer(onoffpb.NewModel())
			return &stack{
				values: msgs(&traits.OnOff{State: traits.OnOff_ON}, &traits.OnOff{State: traits.OnOff_OFF}, &traits.OnOff{State: traits.OnOff_STATE_UNSPECIFIED}),
				conn: assemble(safe, names, srv, onoffpb.WrapApi, func() (adder, traits.OnOffApiServer) { r := onoffpb.NewApiRouter(); return r, r },
					func(cc grpc.ClientConnInterface) any { return traits.NewOnOffApiClient(cc) })}
		}},
	{ID: "openclosepb.ModelServer", Pkg: "openclosepb", File: "model_server.go", Type: "ModelServer",
		Service: "smartcore.traits.OpenCloseApi", Update: "UpdatePositions",
		Note: "model with two initial positions (UP, LEFT) and one preset; values write both positions, one position, or select the preset",
		build: func(safe bool, names []string) *stack {
			up, left := traits.OpenClosePosition_UP, traits.OpenClosePosition_LEFT
			pos := func(u, l float32) []*traits.OpenClosePosition {
				return []*traits.OpenClosePosition{{Direction: up, OpenPercent: u}, {Direction: left, OpenPercent: l}}
			}
			var srv traits.OpenCloseApiServer = openclosepb.NewModelServer(openclosepb.NewModel(
				openclosepb.WithInitialPositions(pos(0, 0)...),
				openclosepb.WithPreset(&traits.OpenClosePositions_Preset{Name: "half", Title: "Half"}, pos(50, 50)...)))
			return &stack{
				// two of the values write one position only: the resource is the aggregate of all positions
				values: msgs(&traits.OpenClosePositions{States: pos(100, 90)},
					&traits.OpenClosePositions{States: []*traits.OpenClosePosition{{Direction: up, OpenPercent: 85, Resistance: traits.OpenClosePosition_SLOW}}},
					&traits.OpenClosePositions{States: pos(20, 30)},
					&traits.OpenClosePositions{States: []*traits.OpenClosePosition{{Direction: left, OpenPercent: 65}}},
					&traits.OpenClosePositions{Preset: &traits.OpenClosePositions_Preset{Name: "half"}}, &traits.OpenClosePositions{States: pos(70, 10)}),
				bad: msgs(&traits.OpenClosePositions{Preset: &traits.OpenClosePositions_Preset{Name: "no-such-preset"}}),
				conn: assemble(safe, names, srv, openclosepb.WrapApi, func() (adder, traits.OpenCloseApiServer) { r := openclosepb.NewApiRouter(); return r, r },
					func(cc grpc.ClientConnInterface) any { return traits.NewOpenCloseApiClient(cc) })}
		}},
	{ID: "openclosepb.ModelServer-empty", Pkg: "openclosepb", File: "model_server.go", Type: "ModelServer",
		Service: "smartcore.traits.OpenCloseApi", Update: "UpdatePositions",
		Note: "openclosepb.NewModel() with its default options: no initial positions",
		build: func(safe bool, names []string) *stack {
			up := traits.OpenClosePosition_UP
			pos := func(u float32) []*traits.OpenClosePosition {
				return []*traits.OpenClosePosition{{Direction: up, OpenPercent: u}}
			}
			var srv traits.OpenCloseApiServer = openclosepb.NewModelServer(openclosepb.NewModel())
			return &stack{
				values: msgs(&traits.OpenClosePositions{States: pos(100)}, &traits.OpenClosePositions{States: pos(20)}, &traits.OpenClosePositions{States: pos(60)}),
				conn: assemble(safe, names, srv, openclosepb.WrapApi, func() (adder, traits.OpenCloseApiServer) { r := openclosepb.NewApiRouter(); return r, r },
					func(cc grpc.ClientConnInterface) any { return traits.NewOpenCloseApiClient(cc) })}
		}},
	{ID: "publicationpb.ModelServer", Pkg: "publicationpb", File: "model_server.go", Type: "ModelServer",
		Service: "smartcore.traits.PublicationApi", Update: "UpdatePublication",
		Note: "two publications are created through the model first; Get/Update/Pull address the first by id, the second is deleted/re-created by Other steps",
		build: func(safe bool, names []string) *stack {
			model := publicationpb.NewModel()
			p := must(model.CreatePublication(&traits.Publication{Id: "pub1", Body: []byte("zero"), MediaType: "text/plain"}))
			id := p.Id
			must(model.CreatePublication(&traits.Publication{Id: "pub2", Body: []byte("other")}))
			var srv traits.PublicationApiServer = publicationpb.NewModelServer(model)
			return &stack{
				values: msgs(&traits.Publication{Id: id, Body: []byte("one"), MediaType: "text/plain"},
					&traits.Publication{Id: id, Body: []byte("{\"two\":2}"), MediaType: "application/json", Audience: &traits.Publication_Audience{Name: "ops"}},
					&traits.Publication{Id: id, Body: []byte("three"), Audience: &traits.Publication_Audience{Name: "all"}},
					&traits.Publication{Id: id, Body: []byte("4"), MediaType: "text/x-four"}),
				bad: msgs(&traits.Publication{Id: "no-such-publication", Body: []byte("x")}, &traits.Publication{Body: []byte("no id")}),
				decorate: func(method string, req protoreflect.Message) { setStringField(req, "id", id) },
				other: func(create bool) error {
					if create {
						_, err := model.CreatePublication(&traits.Publication{Id: "pub2", Body: []byte("other again")})
						if status.Code(err) == codes.AlreadyExists || status.Code(err) == codes.FailedPrecondition {
							return nil
						}
						return err
					}
					_, err := model.DeletePublication("pub2", resource.WithAllowMissing(true))
					return err
				},
				conn: assemble(safe, names, srv, publicationpb.WrapApi, func() (adder, traits.PublicationApiServer) { r := publicationpb.NewApiRouter(); return r, r },
					func(cc grpc.ClientConnInterface) any { return traits.NewPublicationApiClient(cc) })}
		}},
	{ID: "speakerpb.MemoryDevice", Pkg: "speakerpb", File: "memory.go", Type: "MemoryDevice",
		Service: "smartcore.traits.SpeakerApi", Update: "UpdateVolume",
		Note: "constructed with an initial AudioLevel{gain: 50}",
		build: func(safe bool, names []string) *stack {
			var srv traits.SpeakerApiServer = speakerpb.NewMemoryDevice(&types.AudioLevel{Gain: 50})
			return &stack{values: audioLevelValues,
				conn: assemble(safe, names, srv, speakerpb.WrapApi, func() (adder, traits.SpeakerApiServer) { r := speakerpb.NewApiRouter(); return r, r },
					func(cc grpc.ClientConnInterface) any { return traits.NewSpeakerApiClient(cc) })}
		}},
	{ID: "vendingpb.ModelServer", Pkg: "vendingpb", File: "model_server.go", Type: "ModelServer",
		Service: "smartcore.traits.VendingApi", Update: "UpdateStock",
		Note: "two stock records are created through the model first; Get/Update/Pull address the first by consumable, the second is deleted/re-created by Other steps",
		build: func(safe bool, names []string) *stack {
			model := vendingpb.NewModel()
			q := func(a float32) *traits.Consumable_Quantity {
				return &traits.Consumable_Quantity{Amount: a, Unit: traits.Consumable_CUP}
			}
			must(model.CreateStock(&traits.Consumable_Stock{Consumable: "tea", Remaining: q(100)}))
			must(model.CreateStock(&traits.Consumable_Stock{Consumable: "coffee", Remaining: q(7)}))
			var srv traits.VendingApiServer = vendingpb.NewModelServer(model)
			return &stack{
				values: msgs(&traits.Consumable_Stock{Consumable: "tea", Remaining: q(90), Used: q(10)},
					&traits.Consumable_Stock{Consumable: "tea", Remaining: q(40), Used: q(60), LastDispensed: q(2)},
					&traits.Consumable_Stock{Consumable: "tea", Remaining: q(5), Dispensing: true},
					&traits.Consumable_Stock{Consumable: "tea", Used: q(500)}),
				bad: msgs(&traits.Consumable_Stock{Consumable: "no-such-consumable", Remaining: q(1)}, &traits.Consumable_Stock{Remaining: q(1)}),
				decorate: func(method string, req protoreflect.Message) { setStringField(req, "consumable", "tea") },
				other: func(create bool) error {
					if create {
						_, err := model.CreateStock(&traits.Consumable_Stock{Consumable: "coffee", Remaining: q(8)})
						if status.Code(err) == codes.AlreadyExists || status.Code(err) == codes.FailedPrecondition {
							return nil
						}
						return err
					}
					_, err := model.DeleteStock("coffee", resource.WithAllowMissing(true))
					return err
				},
				conn: assemble(safe, names, srv, vendingpb.WrapApi, func() (adder, traits.VendingApiServer) { r := vendingpb.NewApiRouter(); return r, r },
					func(cc grpc.ClientConnInterface) any { return traits.NewVendingApiClient(cc) })}
		}},
}

func findTarget(id string) *target {
	for _, t := range targets {
		if t.ID == id {
			return t
		}
	}
	return nil
}
