---------------------------- MODULE ResourceConc ----------------------------
(***************************************************************************)
(* pkg/resource at the grain of its critical sections (C02, C03).         *)
(*                                                                         *)
(* One resource (a Collection over the ids in Ids; a Value is the special *)
(* case of one id that is always present).  Bodies are abstracted to the  *)
(* integer in their default_int32 field; Absent = -1.  Every stored item  *)
(* has a version (the identity of the *item the code allocates per save). *)
(*                                                                         *)
(* Writers execute one call each, split as the code splits it:            *)
(*   Update/Set/Add:  Read (optimistic read under RLock, released)        *)
(*                    Change (preconditions + interceptors on the value   *)
(*                            read, no lock)                               *)
(*                    Commit (write lock: re-read, proto.Equal with the   *)
(*                            value read, save) -- the linearization point *)
(*                    PubSnap (after the lock is released: start sending   *)
(*                            to the listeners copied at the commit)       *)
(*                    Deliver (one rendezvous per listener, in order)     *)
(*   Delete:          DRead, DCheck (no lock), DLock (write lock: compare *)
(*                    the item's identity, retry up to 5 times, remove,   *)
(*                    copy listeners) and DDeliver under the lock.        *)
(* Subscribers (Pull with backpressure): SubSnap (RLock + snapshot unless *)
(* updates-only), SubListen (register on the bus, release the lock), then *)
(* a forwarding goroutine hands seeds and events to the consumer one at a *)
(* time (Recv is the consumer taking one).                                 *)
(*                                                                         *)
(* Named deviations (constants): PublishAfterUnlock = TRUE is the code as *)
(* pinned (Set/Update publish after releasing the write lock and nothing  *)
(* orders the publications of different writers, so events of different   *)
(* commits can be delivered out of commit order); FALSE = every write     *)
(* (Set/Update/Delete) takes a per-resource publication mutex (mu.ser)    *)
(* just before it takes the write lock to commit and keeps it until its   *)
(* event has been handed to all listeners (reads and change callbacks     *)
(* still overlap, so the optimistic re-validation keeps its purpose).     *)
(* CreatedRevalidated = FALSE is the pinned create path (the second read  *)
(* under the lock returns the freshly created message without looking at  *)
(* the store).                                                             *)
(***************************************************************************)
EXTENDS Integers, Sequences, FiniteSets, TLC

CONSTANTS Writers, Subs, Ids, MaxV,
          Programs,            \* set of call records a writer may be given
          SubKinds,            \* set of [uo, lossy, masked, inc, pid : BOOLEAN] records (pid: opened with PullID on the
                               \* only id of a collection whose item is never removed -- the model's plain subscription).
                               \* set of [uo, lossy, masked, inc : BOOLEAN] records (inc: the subscription carries the include
                               \* predicate "the value is odd": its stream is that of the filtered collection -- a change
                               \* that makes the item start / stop matching is handed over as an add / a removal, one
                               \* between two non-matching versions not at all; only with backpressure here, C08 has the
                               \* lossy combination).  The rest as before: [uo, lossy, masked : BOOLEAN] records a subscriber may be given (masked: it has
                               \* a read mask that keeps the tracked field; it is handed projections made for it
                               \* alone, the other subscribers still get the whole message -- ConcTrace.tla judges that
                               \* on the messages themselves, the bodies here are the tracked integer only)
          InitStores,          \* set of initial contents [Ids -> -1..MaxV]
          PublishAfterUnlock, CreatedRevalidated,
          CollectLive,         \* TRUE = the code: after a publication that met a cancelled listener the bus keeps the
                               \* live ones of its CURRENT listener list; FALSE: it rebuilds the list from the copy it
                               \* took when the publication began (a listener registered meanwhile is lost)
          SnapAtCommit,        \* TRUE = the code: the listeners a change is sent to are copied while the write lock
                               \* is still held (a subscriber registering later has the change in its seed);
                               \* FALSE = pinned: copied when the publication begins, after the lock was released
          MayCancel,           \* subscribers may cancel
          DeleteHoldsLock,     \* TRUE = the code: Delete keeps the write lock while it sends its REMOVE (the listeners it
                               \* sends to are the ones registered at the removal); FALSE: it unlocks first and copies the
                               \* listeners when the send begins (DSnap) -- a subscription opened in between has a seed
                               \* without the item and is still sent its REMOVE
          SnapHoldsLock,       \* TRUE = the code: a subscription keeps the read lock from its snapshot until it is
                               \* registered on the bus; FALSE: it lets go of the lock in between (a write committed in
                               \* that gap is neither in its seed nor sent to it)
          DeleteRechecks,      \* TRUE = the code: under the write lock Delete always compares the item's identity with
                               \* the one it read and goes round again if it changed; FALSE: only when the call carries a
                               \* precondition -- an unconditional Delete then removes whatever is there and announces
                               \* (and returns) the value it read earlier
          Equiv,               \* "none": no equivalence configured.  "coll" / "val": the resource suppresses changes
                               \* equivalent (here: equal) to what the subscriber holds -- a Collection judges a change
                               \* against what the receiver was last sent for the id (its old value if it was sent
                               \* nothing), forgetting the id when it hands a removal over; a Value against the last
                               \* value sent.  "coll-keep": the deviation that keeps the entry of a removed id.
                               \* (Only for subscribers with backpressure.)
          SubSer               \* TRUE: a subscription that takes a snapshot holds the publication mutex while it takes
                               \* the snapshot and registers (no write is between commit and publication then);
                               \* FALSE = the pinned code: a change can be both in the snapshot and delivered, and a
                               \* lossy subscriber merging that duplicate add with a later remove keeps a deleted item

Absent == -1
IsOdd(v) == v # Absent /\ v % 2 = 1
\* what a subscriber of kind k is to hold for a stored value v
Seen(k, v) == IF k.inc /\ ~IsOdd(v) THEN Absent ELSE v
NoW == 0
NoHeld == -5

VARIABLES
  store,      \* [Ids -> [v, ver]]   v = Absent when there is no item
  nextVer,
  mu,         \* [w : writer holding the write lock or NoW, r : set of subscribers holding the read lock,
              \*  ser : writer holding the publication mutex or NoW]
  prog,       \* [Writers -> call]   fixed at Init
  pc, loc,    \* per writer: program counter and locals
  pub,        \* per writer: [ev, targets]  event being published and listeners still to be served
  lsn,        \* sequence of subscribers in bus registration order
  kind,       \* [Subs -> [uo]]      fixed at Init
  spc,        \* per subscriber: "idle" | "snapped" | "open" | "cancelled"
  snap,       \* per subscriber: the snapshot taken ([Ids -> v])
  fwd,        \* per subscriber: forwarder [st : "none"|"seeding"|"wait"|"hold", q : events still to hand over,
              \*                             h : what the receiver was last sent per id (NoHeld: nothing), kept
              \*                             only when an equivalence is configured]
  view,       \* per subscriber: the consumer's fold [Ids -> v], and whether anything was received per id
  seen,       \* per subscriber: [ids : [Ids -> BOOLEAN] received at least one event/seed for the id,
              \*                  seqs : commit numbers of the events received, after : commits made before it registered]
  commitLog,  \* history: sequence of [w, id, pre, post, seq]
  sched       \* history: sequence of [a, p] action labels (the schedule replayed on the real code)

vars == <<store, nextVer, mu, prog, pc, loc, pub, lsn, kind, spc, snap, fwd, view, seen, commitLog, sched>>

(* A call: [op |-> "upd"|"del", id, v (value written), e (expected value or Absent-1 = none),     *)
(*          chk (TRUE: stored value must be >= 1), xa, cia, inc (TRUE: delta interceptor v := old + v)] *)
NoExp == -2

Step(a, p) == sched' = Append(sched, [a |-> a, p |-> p])

Init ==
  /\ store \in { [i \in Ids |-> [v |-> s[i], ver |-> IF s[i] = Absent THEN 0 ELSE 1]] : s \in InitStores }
  /\ nextVer = 2
  /\ mu = [w |-> NoW, r |-> {}, ser |-> NoW]
  /\ prog \in [Writers -> Programs]
  /\ pc = [w \in Writers |-> "start"]
  /\ loc = [w \in Writers |-> [old |-> Absent, ver |-> 0, created |-> FALSE, new |-> Absent, attempt |-> 0,
                               err |-> "none", ret |-> Absent]]
  /\ pub = [w \in Writers |-> [id |-> CHOOSE i \in Ids : TRUE, v |-> Absent, seq |-> 0, add |-> FALSE, targets |-> <<>>,
                               copy |-> <<>>, gc |-> FALSE, pre |-> Absent]]
  /\ lsn = <<>>
  /\ kind \in [Subs -> SubKinds]
  /\ spc = [s \in Subs |-> "idle"]
  /\ snap = [s \in Subs |-> [i \in Ids |-> Absent]]
  /\ fwd = [s \in Subs |-> [st |-> "none", q |-> <<>>, h |-> [i \in Ids |-> NoHeld]]]
  /\ view = [s \in Subs |-> [i \in Ids |-> Absent]]
  /\ seen = [s \in Subs |-> [ids |-> [i \in Ids |-> FALSE], seqs |-> {}, after |-> 0, bad |-> FALSE]]
  /\ commitLog = <<>>
  /\ sched = <<>>

\* taking / releasing the publication mutex (a no-op in the pinned variant)
SerFree(w) == PublishAfterUnlock \/ mu.ser = NoW
Take(w, m) == IF PublishAfterUnlock THEN m ELSE [m EXCEPT !.ser = w]
Drop(w, m) == IF m.ser = w THEN [m EXCEPT !.ser = NoW] ELSE m

\* the call returns (mu' is set here: the publication mutex is released)
Finish(w, e, ret) == /\ pc' = [pc EXCEPT ![w] = "done"]
                     /\ loc' = [loc EXCEPT ![w].err = e, ![w].ret = ret]
                     /\ mu' = Drop(w, mu)

----------------------------------------------------------------------------
(* Update / Set / Add                                                      *)

Read(w) ==
  LET c == prog[w]  cur == store[c.id] IN
  /\ pc[w] = "start" /\ c.op = "upd" /\ mu.w = NoW
  /\ Step("Read", w)
  /\ IF cur.v # Absent
       THEN IF c.xa THEN Finish(w, "AlreadyExists", Absent)
            ELSE /\ loc' = [loc EXCEPT ![w].old = cur.v, ![w].created = FALSE]
                 /\ pc' = [pc EXCEPT ![w] = "change"] /\ UNCHANGED mu
       ELSE IF ~c.cia THEN Finish(w, "NotFound", Absent)
            ELSE /\ loc' = [loc EXCEPT ![w].old = 0, ![w].created = TRUE]     \* a new empty message
                 /\ pc' = [pc EXCEPT ![w] = "change"] /\ UNCHANGED mu
  /\ UNCHANGED <<store, nextVer, prog, pub, lsn, kind, spc, snap, fwd, view, seen, commitLog>>

NewValue(c, old) == IF c.inc THEN old + c.v ELSE c.v

Change(w) ==
  LET c == prog[w]  old == loc[w].old IN
  /\ pc[w] = "change"
  /\ Step("Change", w)
  /\ IF c.e # NoExp /\ c.e # old THEN Finish(w, "FailedPrecondition", Absent)
     ELSE IF c.chk /\ old < 1 THEN Finish(w, "PermissionDenied", Absent)
     ELSE /\ SerFree(w)                        \* about to commit: publication mutex first
          /\ loc' = [loc EXCEPT ![w].new = NewValue(c, old)]
          /\ pc' = [pc EXCEPT ![w] = "commit"] /\ mu' = Take(w, mu)
  /\ UNCHANGED <<store, nextVer, prog, pub, lsn, kind, spc, snap, fwd, view, seen, commitLog>>

\* what the second read under the write lock yields: the value to compare with old, or -3 for "nothing / error"
Reread(w) ==
  LET c == prog[w]  cur == store[c.id] IN
  IF loc[w].created
    THEN IF CreatedRevalidated /\ cur.v # Absent THEN -3 ELSE 0
    ELSE IF cur.v # Absent THEN cur.v
         ELSE IF c.cia THEN 0 ELSE -3

Commit(w) ==
  LET c == prog[w]  cur == store[c.id] IN
  /\ pc[w] = "commit" /\ mu.w = NoW /\ mu.r = {}
  /\ Step("Commit", w)
  /\ IF Reread(w) # loc[w].old
       THEN /\ Finish(w, "Aborted", Absent)
            /\ UNCHANGED <<store, nextVer, commitLog, pub>>
       ELSE /\ store' = [store EXCEPT ![c.id] = [v |-> loc[w].new, ver |-> nextVer]]
            /\ nextVer' = nextVer + 1
            /\ commitLog' = Append(commitLog, [w |-> w, id |-> c.id, pre |-> cur.v, post |-> loc[w].new])
            /\ pub' = [pub EXCEPT ![w] = [id |-> c.id, v |-> loc[w].new, seq |-> Len(commitLog) + 1,
                                           add |-> (cur.v = Absent), gc |-> FALSE, pre |-> cur.v,
                                           targets |-> IF SnapAtCommit THEN lsn ELSE <<>>,
                                           copy |-> IF SnapAtCommit THEN lsn ELSE <<>>]]
            /\ loc' = [loc EXCEPT ![w].ret = loc[w].new]
            /\ pc' = [pc EXCEPT ![w] = "pubsnap"]
            /\ UNCHANGED mu
  /\ UNCHANGED <<prog, lsn, kind, spc, snap, fwd, view, seen>>

Live(seq) == SelectSeq(seq, LAMBDA x : spc[x] # "cancelled")
\* the Send returns: garbage-collect the bus if a cancelled listener was met (gc), release the locks
EndPublish(w, gc) == /\ pc' = [pc EXCEPT ![w] = "done"]
                     /\ loc' = [loc EXCEPT ![w].err = "OK"]
                     /\ mu' = Drop(w, IF mu.w = w THEN [mu EXCEPT !.w = NoW] ELSE mu)
                     /\ lsn' = IF ~gc THEN lsn ELSE IF CollectLive THEN Live(lsn) ELSE Live(pub[w].copy)

PubSnap(w) ==
  /\ pc[w] = "pubsnap"
  /\ Step("PubSnap", w)
  /\ LET tg == IF SnapAtCommit THEN pub[w].targets ELSE lsn IN
     IF tg = <<>>
       THEN EndPublish(w, FALSE) /\ UNCHANGED pub
       ELSE /\ pub' = [pub EXCEPT ![w].targets = tg, ![w].copy = tg]
            /\ pc' = [pc EXCEPT ![w] = "deliver"]
            /\ UNCHANGED <<loc, mu, lsn>>
  /\ UNCHANGED <<store, nextVer, prog, kind, spc, snap, fwd, view, seen, commitLog>>

\* A subscriber without backpressure has a lossy stage between the bus and its forwarder: the stage always
\* takes the event; what the forwarder already holds (head of q) stays, behind it at most one pending change
\* per id is kept (a newer one replaces it and moves to the back; an add that is removed before anybody
\* saw it disappears).
Pipe(q, e) ==
  IF q = <<>> THEN <<e>>
  ELSE LET held == Head(q)  rest == Tail(q)
           same == SelectSeq(rest, LAMBDA x : x.id = e.id)
           others == SelectSeq(rest, LAMBDA x : x.id # e.id)
       IN IF same # <<>> /\ same[1].add /\ e.v = Absent THEN <<held>> \o others
          ELSE <<held>> \o others \o <<[e EXCEPT !.add = IF same # <<>> THEN same[1].add ELSE e.add]>>

\* rendezvous with the forwarder of the next listener: only when it is waiting for the bus
\* (or, for a lossy subscriber, always: the stage takes it)
Deliver(w) ==
  LET s == Head(pub[w].targets)
      e == [id |-> pub[w].id, v |-> pub[w].v, seq |-> pub[w].seq, add |-> pub[w].add] IN
  /\ pc[w] \in {"deliver", "ddeliver"} /\ pub[w].targets # <<>>
  /\ spc[s] = "cancelled" \/ kind[s].lossy \/ fwd[s].st = "wait"
  /\ Step("Deliver", w)
  /\ LET gone == spc[s] = "cancelled"  gc == pub[w].gc \/ gone
         \* the forwarder's equivalence decision on taking the event from the bus
         last == IF fwd[s].h[e.id] # NoHeld THEN fwd[s].h[e.id]
                 ELSE IF Equiv \in {"coll", "coll-keep"} THEN pub[w].pre ELSE Absent
         oi == IsOdd(pub[w].pre)  ni == IsOdd(e.v)
         excluded == kind[s].inc /\ ~kind[s].lossy /\ ~oi /\ ~ni
         skip == excluded \/ (Equiv # "none" /\ ~kind[s].lossy /\ last # Absent /\ last = e.v)
         h2 == IF Equiv = "none" \/ kind[s].lossy THEN fwd[s].h
               ELSE [fwd[s].h EXCEPT ![e.id] = IF e.v = Absent THEN (IF Equiv = "coll-keep" THEN @ ELSE NoHeld) ELSE e.v]
     IN
     /\ fwd' = IF gone \/ skip THEN fwd      \* a cancelled listener is skipped (and the bus collected afterwards)
                ELSE [fwd EXCEPT ![s] = [st |-> IF fwd[s].st = "wait" THEN "hold" ELSE fwd[s].st,
                                         q |-> IF kind[s].lossy THEN Pipe(fwd[s].q, e)
                                               ELSE IF kind[s].inc THEN <<[e EXCEPT !.v = IF ni THEN e.v ELSE Absent, !.add = ni /\ ~oi]>>
                                               ELSE <<e>>, h |-> h2]]
     \* (a change suppressed as equivalent is accounted for)
     /\ seen' = IF ~gone /\ skip THEN [seen EXCEPT ![s].seqs = seen[s].seqs \cup {e.seq}] ELSE seen
     /\ pub' = [pub EXCEPT ![w].targets = Tail(pub[w].targets), ![w].gc = gc]
     /\ IF Len(pub[w].targets) = 1 THEN EndPublish(w, gc) ELSE UNCHANGED <<pc, loc, mu, lsn>>
  /\ UNCHANGED <<store, nextVer, prog, kind, spc, snap, view, commitLog>>

----------------------------------------------------------------------------
(* Delete                                                                   *)

DRead(w) ==
  LET c == prog[w]  cur == store[c.id] IN
  /\ pc[w] = "start" /\ c.op = "del" /\ mu.w = NoW
  /\ Step("DRead", w)
  /\ loc' = [loc EXCEPT ![w].old = cur.v, ![w].ver = cur.ver]
  /\ pc' = [pc EXCEPT ![w] = "dcheck"]
  /\ UNCHANGED <<store, nextVer, mu, prog, pub, lsn, kind, spc, snap, fwd, view, seen, commitLog>>

\* top of Delete's retry loop: the attempt bound, existence and the preconditions on the body last seen;
\* "go" = go on to take the write lock
DTop(c, old, attempt) ==
  IF attempt >= 5 THEN [go |-> FALSE, err |-> "Unavailable", ret |-> Absent]
  ELSE IF old = Absent THEN [go |-> FALSE, err |-> IF c.am THEN "OK" ELSE "NotFound", ret |-> Absent]
  ELSE IF c.chk /\ old < 1 THEN [go |-> FALSE, err |-> "PermissionDenied", ret |-> old]
  ELSE IF c.e # NoExp /\ c.e # old THEN [go |-> FALSE, err |-> "FailedPrecondition", ret |-> old]
  ELSE [go |-> TRUE, err |-> "none", ret |-> Absent]

DCheck(w) ==
  LET c == prog[w]  t == DTop(c, loc[w].old, loc[w].attempt) IN
  /\ pc[w] = "dcheck"
  /\ Step("DCheck", w)
  /\ IF t.go THEN pc' = [pc EXCEPT ![w] = "dlock"] /\ UNCHANGED <<loc, mu>>
     ELSE Finish(w, t.err, t.ret)
  /\ UNCHANGED <<store, nextVer, prog, pub, lsn, kind, spc, snap, fwd, view, seen, commitLog>>

DLock(w) ==
  LET c == prog[w]  cur == store[c.id] IN
  /\ pc[w] = "dlock" /\ mu.w = NoW /\ mu.r = {} /\ SerFree(w)
  /\ Step("DLock", w)
  /\ IF ((DeleteRechecks \/ c.e # NoExp \/ c.chk) /\ cur.ver # loc[w].ver) \/ (cur.v = Absent) # (loc[w].old = Absent)
       THEN \* somebody changed the item while the precondition was being checked: unlock, look at the
            \* item found and go round the loop again (the loop top runs in the same breath)
            LET t == DTop(c, cur.v, loc[w].attempt + 1) IN
            /\ loc' = [loc EXCEPT ![w].old = cur.v, ![w].ver = cur.ver, ![w].attempt = loc[w].attempt + 1,
                                   ![w].err = IF t.go THEN "none" ELSE t.err, ![w].ret = t.ret]
            /\ pc' = [pc EXCEPT ![w] = IF t.go THEN "dlock" ELSE "done"]
            /\ UNCHANGED <<store, commitLog, pub, mu>>
       ELSE /\ store' = [store EXCEPT ![c.id] = [v |-> Absent, ver |-> 0]]
            /\ commitLog' = Append(commitLog, [w |-> w, id |-> c.id, pre |-> cur.v, post |-> Absent])
            /\ IF lsn = <<>> /\ DeleteHoldsLock
                 THEN /\ pc' = [pc EXCEPT ![w] = "done"] /\ UNCHANGED <<pub, mu>>
                      /\ loc' = [loc EXCEPT ![w].ret = cur.v, ![w].err = "OK"]
                 ELSE /\ pub' = [pub EXCEPT ![w] = [id |-> c.id, v |-> Absent, seq |-> Len(commitLog) + 1, add |-> FALSE,
                                                     targets |-> lsn, copy |-> lsn, gc |-> FALSE,
                                                     pre |-> IF DeleteRechecks THEN cur.v ELSE loc[w].old]]
                      /\ pc' = [pc EXCEPT ![w] = IF DeleteHoldsLock THEN "ddeliver" ELSE "dsnap"]
                      /\ loc' = [loc EXCEPT ![w].ret = cur.v]
                      /\ mu' = Take(w, IF DeleteHoldsLock THEN [mu EXCEPT !.w = w] ELSE mu)  \* Delete sends while holding the write lock
  /\ UNCHANGED <<nextVer, prog, lsn, kind, spc, snap, fwd, view, seen>>

\* (deviation only) the unlocked Delete begins its send: the listeners are copied now
DSnap(w) ==
  /\ pc[w] = "dsnap"
  /\ Step("DSnap", w)
  /\ IF lsn = <<>>
       THEN /\ pc' = [pc EXCEPT ![w] = "done"] /\ loc' = [loc EXCEPT ![w].err = "OK"] /\ mu' = Drop(w, mu)
            /\ UNCHANGED pub
       ELSE /\ pub' = [pub EXCEPT ![w].targets = lsn, ![w].copy = lsn]
            /\ pc' = [pc EXCEPT ![w] = "ddeliver"] /\ UNCHANGED <<loc, mu>>
  /\ UNCHANGED <<store, nextVer, prog, lsn, kind, spc, snap, fwd, view, seen, commitLog>>

----------------------------------------------------------------------------
(* Subscribers                                                              *)

Contents == [i \in Ids |-> store[i].v]

\* (a subscriber holding the publication mutex is recorded as -s in mu.ser)
SubSnap(s) ==
  /\ spc[s] = "idle" /\ (kind[s].uo \/ mu.w = NoW)
  /\ (SubSer /\ ~kind[s].uo /\ ~PublishAfterUnlock => mu.ser = NoW)
  /\ Step("SubSnap", s)
  /\ spc' = [spc EXCEPT ![s] = "snapped"]
  /\ IF kind[s].uo THEN UNCHANGED <<mu, snap>>
     ELSE /\ mu' = [mu EXCEPT !.r = IF SnapHoldsLock THEN mu.r \cup {s} ELSE mu.r,
                                !.ser = IF SubSer /\ ~PublishAfterUnlock THEN 0 - s ELSE mu.ser]
          /\ snap' = [snap EXCEPT ![s] = Contents]
  /\ UNCHANGED <<store, nextVer, prog, pc, loc, pub, lsn, kind, fwd, view, seen, commitLog>>

\* seeds in id order (Ids are integers)
RECURSIVE SeedSeq(_, _)
SeedSeq(S, m) == IF S = {} THEN <<>>
                 ELSE LET i == CHOOSE x \in S : \A y \in S : x <= y IN
                      (IF m[i] = Absent THEN <<>> ELSE <<[id |-> i, v |-> m[i], seq |-> 0, add |-> TRUE]>>) \o SeedSeq(S \ {i}, m)

SubListen(s) ==
  /\ spc[s] = "snapped"
  /\ Step("SubListen", s)
  /\ spc' = [spc EXCEPT ![s] = "open"]
  /\ lsn' = Append(lsn, s)
  /\ mu' = [mu EXCEPT !.r = mu.r \ {s}, !.ser = IF mu.ser = 0 - s THEN NoW ELSE mu.ser]
  /\ LET seeds == IF kind[s].uo THEN <<>> ELSE SeedSeq(Ids, [i \in Ids |-> Seen(kind[s], snap[s][i])]) IN
     fwd' = [fwd EXCEPT ![s] = [st |-> IF seeds = <<>> THEN "wait" ELSE "seeding", q |-> seeds,
                                \* (every seed has been handed to the consumer before the first event is looked at)
                                h |-> [i \in Ids |-> IF Equiv = "none" \/ kind[s].uo \/ snap[s][i] = Absent THEN NoHeld
                                                     ELSE snap[s][i]]]]
  /\ seen' = [seen EXCEPT ![s].after = Len(commitLog)]
  /\ UNCHANGED <<store, nextVer, prog, pc, loc, pub, kind, snap, view, commitLog>>

\* the subscriber's context is cancelled: it stops counting as a reader; the bus forgets it at the next
\* publication that meets it
SubCancel(s) ==
  /\ spc[s] = "open"
  /\ Step("SubCancel", s)
  /\ spc' = [spc EXCEPT ![s] = "cancelled"]
  /\ fwd' = [fwd EXCEPT ![s] = [st |-> "none", q |-> <<>>, h |-> fwd[s].h]]
  /\ UNCHANGED <<store, nextVer, mu, prog, pc, loc, pub, lsn, kind, snap, view, seen, commitLog>>

\* the consumer takes the next seed or the held event
Recv(s) ==
  /\ fwd[s].st \in {"seeding", "hold"}
  /\ Step("Recv", s)
  /\ LET e == Head(fwd[s].q) IN
     /\ view' = [view EXCEPT ![s][e.id] = e.v]
     /\ seen' = [seen EXCEPT ![s].ids[e.id] = TRUE, ![s].seqs = seen[s].seqs \cup {e.seq},
                              \* the stream is an edit script of the seed: a removal is of an item the consumer has,
                              \* an add of one it has not, an update of one it has
                              ![s].bad = @ \/ (/\ ~kind[s].uo /\ ~kind[s].lossy
                                               /\ \/ e.v = Absent /\ view[s][e.id] = Absent
                                                  \/ e.v # Absent /\ e.add /\ view[s][e.id] # Absent
                                                  \/ e.v # Absent /\ ~e.add /\ view[s][e.id] = Absent)]
     /\ fwd' = [fwd EXCEPT ![s] = [st |-> IF Len(fwd[s].q) = 1 THEN "wait"
                                          ELSE IF fwd[s].st = "seeding" /\ ~Head(Tail(fwd[s].q)).add THEN "hold"
                                          ELSE IF fwd[s].st = "seeding" /\ Head(Tail(fwd[s].q)).seq # 0 THEN "hold"
                                          ELSE fwd[s].st,
                                   q |-> Tail(fwd[s].q), h |-> fwd[s].h]]
  /\ UNCHANGED <<store, nextVer, mu, prog, pc, loc, pub, lsn, kind, spc, snap, commitLog>>

----------------------------------------------------------------------------
Next == \/ \E w \in Writers : Read(w) \/ Change(w) \/ Commit(w) \/ PubSnap(w) \/ Deliver(w)
                              \/ DRead(w) \/ DCheck(w) \/ DLock(w) \/ DSnap(w)
        \/ \E s \in Subs : SubSnap(s) \/ SubListen(s) \/ Recv(s) \/ (MayCancel /\ SubCancel(s))
Spec == Init /\ [][Next]_vars

\* the fingerprint leaves out the histories
ViewNoHist == <<store, nextVer, mu, prog, pc, loc, pub, lsn, kind, spc, snap, fwd, view, seen>>

----------------------------------------------------------------------------
(* C02: every commit is valid as a one-at-a-time call at its instant       *)

\* the sequential meaning of a call on the contents v of its id: [ok, post]
SeqApply(c, v) ==
  IF c.op = "del"
    THEN IF v = Absent \/ (c.chk /\ v < 1) \/ (c.e # NoExp /\ c.e # v) THEN [ok |-> FALSE, post |-> v]
         ELSE [ok |-> TRUE, post |-> Absent]
    ELSE IF (v # Absent /\ c.xa) \/ (v = Absent /\ ~c.cia) THEN [ok |-> FALSE, post |-> v]
         ELSE LET old == IF v = Absent THEN 0 ELSE v IN
              IF (c.e # NoExp /\ c.e # old) \/ (c.chk /\ old < 1) THEN [ok |-> FALSE, post |-> v]
              ELSE [ok |-> TRUE, post |-> NewValue(c, old)]

CommitValid == \A k \in 1..Len(commitLog) :
                 LET e == commitLog[k]  r == SeqApply(prog[e.w], e.pre) IN r.ok /\ r.post = e.post
EffectOnce == \A w \in Writers :
                 LET n == Cardinality({ k \in 1..Len(commitLog) : commitLog[k].w = w }) IN
                 /\ n <= 1
                 /\ (pc[w] = "done" /\ loc[w].err = "OK" /\ ~(prog[w].op = "del" /\ prog[w].am /\ loc[w].ret = Absent) => n = 1)
                 /\ (pc[w] = "done" /\ loc[w].err \notin {"OK", "none"} => n = 0)
LoserCodes == \A w \in Writers : pc[w] = "done" =>
                 loc[w].err \in {"OK", "Aborted", "AlreadyExists", "FailedPrecondition", "NotFound", "Unavailable", "PermissionDenied"}

----------------------------------------------------------------------------
(* C03: once writers are done and everything handed over, a subscriber's   *)
(* fold is the store (for an updates-only subscriber: on the ids it has    *)
(* heard about)                                                            *)
AllDone == \A w \in Writers : pc[w] = "done"
Drained(s) == spc[s] = "open" /\ fwd[s].st = "wait"
Converged == AllDone => \A s \in Subs : Drained(s) =>
               \A i \in Ids : (~kind[s].uo \/ seen[s].ids[i]) => view[s][i] = Seen(kind[s], store[i].v)
\* nothing committed after a backpressured subscriber registered is missed: once everything is handed over it
\* has received the event of every such commit
NoCommitMissed == AllDone => \A s \in Subs : Drained(s) /\ ~kind[s].lossy =>
                    \A k \in 1..Len(commitLog) : k > seen[s].after => k \in seen[s].seqs
\* C04 under concurrency: what a backpressured subscriber receives is an edit script of its seed
EditScript == \A s \in Subs : ~seen[s].bad
NoLock == mu.w = NoW \/ pc[mu.w] \in {"deliver", "ddeliver", "pubsnap"}
TypeOK == /\ mu.w \in Writers \cup {NoW} /\ mu.r \subseteq Subs /\ NoLock
          /\ mu.ser \in Writers \cup {NoW} \cup { 0 - s : s \in Subs }
          /\ (mu.ser \in Writers => pc[mu.ser] # "done")
=============================================================================
