import glob
import os
import shutil
import subprocess
import tempfile

import vf


def main():
    rc = 0
    # 1. every TLA+ module parses
    d = tempfile.mkdtemp(prefix="verif-setup-")
    try:
        for f in glob.glob(os.path.join(vf.SPEC, "*.tla")):
            shutil.copy(f, d)
        for f in sorted(glob.glob(os.path.join(d, "*.tla"))):
            p = subprocess.run(["tla-sany", os.path.basename(f)], cwd=d, stdout=subprocess.PIPE,
                               stderr=subprocess.STDOUT, text=True, timeout=120)
            if p.returncode != 0 or "Semantic errors" in p.stdout or "***Parse Error***" in p.stdout:
                print("SANY failed on", f)
                print(p.stdout[-2000:])
                rc = 1
        # 2. warm the Go build cache (plain and race builds of the harness)
        ctx = vf.Ctx("setup", "quick", 1)
        try:
            for name in sorted(os.listdir(os.path.join(vf.HARNESS, "cmd"))):
                ctx.harness(cmd=name)
            ctx.harness(race=True)
        finally:
            ctx.cleanup()
    finally:
        shutil.rmtree(d, ignore_errors=True)
    print("setup ok" if rc == 0 else "setup FAILED")
    return rc
