// Table of every generated router in pkg/trait.  lib/checks/c12.py scans the tree for
// `func New…Router(` and refuses to give a verdict when a router is missing here.
// (written once by a script from the *_router.pb.go files; one line per router)
package main

import (
	"google.golang.org/grpc"

	"github.com/smart-core-os/sc-api/go/traits"
	"github.com/smart-core-os/sc-golang/pkg/router"
	"github.com/smart-core-os/sc-golang/pkg/trait/accesspb"
	"github.com/smart-core-os/sc-golang/pkg/trait/airqualitysensorpb"
	"github.com/smart-core-os/sc-golang/pkg/trait/airtemperaturepb"
	"github.com/smart-core-os/sc-golang/pkg/trait/bookingpb"
	"github.com/smart-core-os/sc-golang/pkg/trait/brightnesssensorpb"
	"github.com/smart-core-os/sc-golang/pkg/trait/channelpb"
	"github.com/smart-core-os/sc-golang/pkg/trait/colorpb"
	"github.com/smart-core-os/sc-golang/pkg/trait/countpb"
	"github.com/smart-core-os/sc-golang/pkg/trait/electricpb"
	"github.com/smart-core-os/sc-golang/pkg/trait/emergencypb"
	"github.com/smart-core-os/sc-golang/pkg/trait/energystoragepb"
	"github.com/smart-core-os/sc-golang/pkg/trait/enterleavesensorpb"
	"github.com/smart-core-os/sc-golang/pkg/trait/extendretractpb"
	"github.com/smart-core-os/sc-golang/pkg/trait/fanspeedpb"
	"github.com/smart-core-os/sc-golang/pkg/trait/hailpb"
	"github.com/smart-core-os/sc-golang/pkg/trait/inputselectpb"
	"github.com/smart-core-os/sc-golang/pkg/trait/lightpb"
	"github.com/smart-core-os/sc-golang/pkg/trait/lockunlockpb"
	"github.com/smart-core-os/sc-golang/pkg/trait/metadatapb"
	"github.com/smart-core-os/sc-golang/pkg/trait/meterpb"
	"github.com/smart-core-os/sc-golang/pkg/trait/microphonepb"
	"github.com/smart-core-os/sc-golang/pkg/trait/modepb"
	"github.com/smart-core-os/sc-golang/pkg/trait/motionsensorpb"
	"github.com/smart-core-os/sc-golang/pkg/trait/occupancysensorpb"
	"github.com/smart-core-os/sc-golang/pkg/trait/onoffpb"
	"github.com/smart-core-os/sc-golang/pkg/trait/openclosepb"
	"github.com/smart-core-os/sc-golang/pkg/trait/parentpb"
	"github.com/smart-core-os/sc-golang/pkg/trait/presspb"
	"github.com/smart-core-os/sc-golang/pkg/trait/ptzpb"
	"github.com/smart-core-os/sc-golang/pkg/trait/publicationpb"
	"github.com/smart-core-os/sc-golang/pkg/trait/speakerpb"
	"github.com/smart-core-os/sc-golang/pkg/trait/temperaturepb"
	"github.com/smart-core-os/sc-golang/pkg/trait/vendingpb"
	"github.com/smart-core-os/sc-golang/pkg/trait/wastepb"
)

var routers = []entry{
	// ROUTER accesspb NewApiRouter
	{Pkg: "accesspb", File: "api_router.pb.go", Ctor: "NewApiRouter", Client: "AccessApiClient",
		New:       func(o ...router.Option) routerT { return accesspb.NewApiRouter(o...) },
		NewClient: func(cc grpc.ClientConnInterface) any { return traits.NewAccessApiClient(cc) },
		TypedFactory: func(f func(string) (any, error)) router.Option {
			return accesspb.WithAccessApiClientFactory(func(n string) (traits.AccessApiClient, error) {
				c, err := f(n)
				if c == nil {
					return nil, err
				}
				return c.(traits.AccessApiClient), err
			})
		}},
	// ROUTER airqualitysensorpb NewApiRouter
	{Pkg: "airqualitysensorpb", File: "api_router.pb.go", Ctor: "NewApiRouter", Client: "AirQualitySensorApiClient",
		New:       func(o ...router.Option) routerT { return airqualitysensorpb.NewApiRouter(o...) },
		NewClient: func(cc grpc.ClientConnInterface) any { return traits.NewAirQualitySensorApiClient(cc) },
		TypedFactory: func(f func(string) (any, error)) router.Option {
			return airqualitysensorpb.WithAirQualitySensorApiClientFactory(func(n string) (traits.AirQualitySensorApiClient, error) {
				c, err := f(n)
				if c == nil {
					return nil, err
				}
				return c.(traits.AirQualitySensorApiClient), err
			})
		}},
	// ROUTER airqualitysensorpb NewInfoRouter
	{Pkg: "airqualitysensorpb", File: "info_router.pb.go", Ctor: "NewInfoRouter", Client: "AirQualitySensorInfoClient",
		New:       func(o ...router.Option) routerT { return airqualitysensorpb.NewInfoRouter(o...) },
		NewClient: func(cc grpc.ClientConnInterface) any { return traits.NewAirQualitySensorInfoClient(cc) },
		TypedFactory: func(f func(string) (any, error)) router.Option {
			return airqualitysensorpb.WithAirQualitySensorInfoClientFactory(func(n string) (traits.AirQualitySensorInfoClient, error) {
				c, err := f(n)
				if c == nil {
					return nil, err
				}
				return c.(traits.AirQualitySensorInfoClient), err
			})
		}},
	// ROUTER airtemperaturepb NewApiRouter
	{Pkg: "airtemperaturepb", File: "api_router.pb.go", Ctor: "NewApiRouter", Client: "AirTemperatureApiClient",
		New:       func(o ...router.Option) routerT { return airtemperaturepb.NewApiRouter(o...) },
		NewClient: func(cc grpc.ClientConnInterface) any { return traits.NewAirTemperatureApiClient(cc) },
		TypedFactory: func(f func(string) (any, error)) router.Option {
			return airtemperaturepb.WithAirTemperatureApiClientFactory(func(n string) (traits.AirTemperatureApiClient, error) {
				c, err := f(n)
				if c == nil {
					return nil, err
				}
				return c.(traits.AirTemperatureApiClient), err
			})
		}},
	// ROUTER airtemperaturepb NewInfoRouter
	{Pkg: "airtemperaturepb", File: "info_router.pb.go", Ctor: "NewInfoRouter", Client: "AirTemperatureInfoClient",
		New:       func(o ...router.Option) routerT { return airtemperaturepb.NewInfoRouter(o...) },
		NewClient: func(cc grpc.ClientConnInterface) any { return traits.NewAirTemperatureInfoClient(cc) },
		TypedFactory: func(f func(string) (any, error)) router.Option {
			return airtemperaturepb.WithAirTemperatureInfoClientFactory(func(n string) (traits.AirTemperatureInfoClient, error) {
				c, err := f(n)
				if c == nil {
					return nil, err
				}
				return c.(traits.AirTemperatureInfoClient), err
			})
		}},
	// ROUTER bookingpb NewApiRouter
	{Pkg: "bookingpb", File: "api_router.pb.go", Ctor: "NewApiRouter", Client: "BookingApiClient",
		New:       func(o ...router.Option) routerT { return bookingpb.NewApiRouter(o...) },
		NewClient: func(cc grpc.ClientConnInterface) any { return traits.NewBookingApiClient(cc) },
		TypedFactory: func(f func(string) (any, error)) router.Option {
			return bookingpb.WithBookingApiClientFactory(func(n string) (traits.BookingApiClient, error) {
				c, err := f(n)
				if c == nil {
					return nil, err
				}
				return c.(traits.BookingApiClient), err
			})
		}},
	// ROUTER bookingpb NewInfoRouter
	{Pkg: "bookingpb", File: "info_router.pb.go", Ctor: "NewInfoRouter", Client: "BookingInfoClient",
		New:       func(o ...router.Option) routerT { return bookingpb.NewInfoRouter(o...) },
		NewClient: func(cc grpc.ClientConnInterface) any { return traits.NewBookingInfoClient(cc) },
		TypedFactory: func(f func(string) (any, error)) router.Option {
			return bookingpb.WithBookingInfoClientFactory(func(n string) (traits.BookingInfoClient, error) {
				c, err := f(n)
				if c == nil {
					return nil, err
				}
				return c.(traits.BookingInfoClient), err
			})
		}},
	// ROUTER brightnesssensorpb NewApiRouter
	{Pkg: "brightnesssensorpb", File: "api_router.pb.go", Ctor: "NewApiRouter", Client: "BrightnessSensorApiClient",
		New:       func(o ...router.Option) routerT { return brightnesssensorpb.NewApiRouter(o...) },
		NewClient: func(cc grpc.ClientConnInterface) any { return traits.NewBrightnessSensorApiClient(cc) },
		TypedFactory: func(f func(string) (any, error)) router.Option {
			return brightnesssensorpb.WithBrightnessSensorApiClientFactory(func(n string) (traits.BrightnessSensorApiClient, error) {
				c, err := f(n)
				if c == nil {
					return nil, err
				}
				return c.(traits.BrightnessSensorApiClient), err
			})
		}},
	// ROUTER brightnesssensorpb NewInfoRouter
	{Pkg: "brightnesssensorpb", File: "info_router.pb.go", Ctor: "NewInfoRouter", Client: "BrightnessSensorInfoClient",
		New:       func(o ...router.Option) routerT { return brightnesssensorpb.NewInfoRouter(o...) },
		NewClient: func(cc grpc.ClientConnInterface) any { return traits.NewBrightnessSensorInfoClient(cc) },
		TypedFactory: func(f func(string) (any, error)) router.Option {
			return brightnesssensorpb.WithBrightnessSensorInfoClientFactory(func(n string) (traits.BrightnessSensorInfoClient, error) {
				c, err := f(n)
				if c == nil {
					return nil, err
				}
				return c.(traits.BrightnessSensorInfoClient), err
			})
		}},
	// ROUTER channelpb NewApiRouter
	{Pkg: "channelpb", File: "api_router.pb.go", Ctor: "NewApiRouter", Client: "ChannelApiClient",
		New:       func(o ...router.Option) routerT { return channelpb.NewApiRouter(o...) },
		NewClient: func(cc grpc.ClientConnInterface) any { return traits.NewChannelApiClient(cc) },
		TypedFactory: func(f func(string) (any, error)) router.Option {
			return channelpb.WithChannelApiClientFactory(func(n string) (traits.ChannelApiClient, error) {
				c, err := f(n)
				if c == nil {
					return nil, err
				}
				return c.(traits.ChannelApiClient), err
			})
		}},
	// ROUTER channelpb NewInfoRouter
	{Pkg: "channelpb", File: "info_router.pb.go", Ctor: "NewInfoRouter", Client: "ChannelInfoClient",
		New:       func(o ...router.Option) routerT { return channelpb.NewInfoRouter(o...) },
		NewClient: func(cc grpc.ClientConnInterface) any { return traits.NewChannelInfoClient(cc) },
		TypedFactory: func(f func(string) (any, error)) router.Option {
			return channelpb.WithChannelInfoClientFactory(func(n string) (traits.ChannelInfoClient, error) {
				c, err := f(n)
				if c == nil {
					return nil, err
				}
				return c.(traits.ChannelInfoClient), err
			})
		}},
	// ROUTER colorpb NewApiRouter
	{Pkg: "colorpb", File: "api_router.pb.go", Ctor: "NewApiRouter", Client: "ColorApiClient",
		New:       func(o ...router.Option) routerT { return colorpb.NewApiRouter(o...) },
		NewClient: func(cc grpc.ClientConnInterface) any { return traits.NewColorApiClient(cc) },
		TypedFactory: func(f func(string) (any, error)) router.Option {
			return colorpb.WithColorApiClientFactory(func(n string) (traits.ColorApiClient, error) {
				c, err := f(n)
				if c == nil {
					return nil, err
				}
				return c.(traits.ColorApiClient), err
			})
		}},
	// ROUTER colorpb NewInfoRouter
	{Pkg: "colorpb", File: "info_router.pb.go", Ctor: "NewInfoRouter", Client: "ColorInfoClient",
		New:       func(o ...router.Option) routerT { return colorpb.NewInfoRouter(o...) },
		NewClient: func(cc grpc.ClientConnInterface) any { return traits.NewColorInfoClient(cc) },
		TypedFactory: func(f func(string) (any, error)) router.Option {
			return colorpb.WithColorInfoClientFactory(func(n string) (traits.ColorInfoClient, error) {
				c, err := f(n)
				if c == nil {
					return nil, err
				}
				return c.(traits.ColorInfoClient), err
			})
		}},
	// ROUTER countpb NewApiRouter
	{Pkg: "countpb", File: "api_router.pb.go", Ctor: "NewApiRouter", Client: "CountApiClient",
		New:       func(o ...router.Option) routerT { return countpb.NewApiRouter(o...) },
		NewClient: func(cc grpc.ClientConnInterface) any { return traits.NewCountApiClient(cc) },
		TypedFactory: func(f func(string) (any, error)) router.Option {
			return countpb.WithCountApiClientFactory(func(n string) (traits.CountApiClient, error) {
				c, err := f(n)
				if c == nil {
					return nil, err
				}
				return c.(traits.CountApiClient), err
			})
		}},
	// ROUTER countpb NewInfoRouter
	{Pkg: "countpb", File: "info_router.pb.go", Ctor: "NewInfoRouter", Client: "CountInfoClient",
		New:       func(o ...router.Option) routerT { return countpb.NewInfoRouter(o...) },
		NewClient: func(cc grpc.ClientConnInterface) any { return traits.NewCountInfoClient(cc) },
		TypedFactory: func(f func(string) (any, error)) router.Option {
			return countpb.WithCountInfoClientFactory(func(n string) (traits.CountInfoClient, error) {
				c, err := f(n)
				if c == nil {
					return nil, err
				}
				return c.(traits.CountInfoClient), err
			})
		}},
	// ROUTER electricpb NewApiRouter
	{Pkg: "electricpb", File: "api_router.pb.go", Ctor: "NewApiRouter", Client: "ElectricApiClient",
		New:       func(o ...router.Option) routerT { return electricpb.NewApiRouter(o...) },
		NewClient: func(cc grpc.ClientConnInterface) any { return traits.NewElectricApiClient(cc) },
		TypedFactory: func(f func(string) (any, error)) router.Option {
			return electricpb.WithElectricApiClientFactory(func(n string) (traits.ElectricApiClient, error) {
				c, err := f(n)
				if c == nil {
					return nil, err
				}
				return c.(traits.ElectricApiClient), err
			})
		}},
	// ROUTER electricpb NewInfoRouter
	{Pkg: "electricpb", File: "info_router.pb.go", Ctor: "NewInfoRouter", Client: "ElectricInfoClient",
		New:       func(o ...router.Option) routerT { return electricpb.NewInfoRouter(o...) },
		NewClient: func(cc grpc.ClientConnInterface) any { return traits.NewElectricInfoClient(cc) },
		TypedFactory: func(f func(string) (any, error)) router.Option {
			return electricpb.WithElectricInfoClientFactory(func(n string) (traits.ElectricInfoClient, error) {
				c, err := f(n)
				if c == nil {
					return nil, err
				}
				return c.(traits.ElectricInfoClient), err
			})
		}},
	// ROUTER electricpb NewMemorySettingsApiRouter
	{Pkg: "electricpb", File: "memorysettingsapi_router.pb.go", Ctor: "NewMemorySettingsApiRouter", Client: "MemorySettingsApiClient",
		New:       func(o ...router.Option) routerT { return electricpb.NewMemorySettingsApiRouter(o...) },
		NewClient: func(cc grpc.ClientConnInterface) any { return electricpb.NewMemorySettingsApiClient(cc) },
		TypedFactory: func(f func(string) (any, error)) router.Option {
			return electricpb.WithMemorySettingsApiClientFactory(func(n string) (electricpb.MemorySettingsApiClient, error) {
				c, err := f(n)
				if c == nil {
					return nil, err
				}
				return c.(electricpb.MemorySettingsApiClient), err
			})
		}},
	// ROUTER emergencypb NewApiRouter
	{Pkg: "emergencypb", File: "api_router.pb.go", Ctor: "NewApiRouter", Client: "EmergencyApiClient",
		New:       func(o ...router.Option) routerT { return emergencypb.NewApiRouter(o...) },
		NewClient: func(cc grpc.ClientConnInterface) any { return traits.NewEmergencyApiClient(cc) },
		TypedFactory: func(f func(string) (any, error)) router.Option {
			return emergencypb.WithEmergencyApiClientFactory(func(n string) (traits.EmergencyApiClient, error) {
				c, err := f(n)
				if c == nil {
					return nil, err
				}
				return c.(traits.EmergencyApiClient), err
			})
		}},
	// ROUTER emergencypb NewInfoRouter
	{Pkg: "emergencypb", File: "info_router.pb.go", Ctor: "NewInfoRouter", Client: "EmergencyInfoClient",
		New:       func(o ...router.Option) routerT { return emergencypb.NewInfoRouter(o...) },
		NewClient: func(cc grpc.ClientConnInterface) any { return traits.NewEmergencyInfoClient(cc) },
		TypedFactory: func(f func(string) (any, error)) router.Option {
			return emergencypb.WithEmergencyInfoClientFactory(func(n string) (traits.EmergencyInfoClient, error) {
				c, err := f(n)
				if c == nil {
					return nil, err
				}
				return c.(traits.EmergencyInfoClient), err
			})
		}},
	// ROUTER energystoragepb NewApiRouter
	{Pkg: "energystoragepb", File: "api_router.pb.go", Ctor: "NewApiRouter", Client: "EnergyStorageApiClient",
		New:       func(o ...router.Option) routerT { return energystoragepb.NewApiRouter(o...) },
		NewClient: func(cc grpc.ClientConnInterface) any { return traits.NewEnergyStorageApiClient(cc) },
		TypedFactory: func(f func(string) (any, error)) router.Option {
			return energystoragepb.WithEnergyStorageApiClientFactory(func(n string) (traits.EnergyStorageApiClient, error) {
				c, err := f(n)
				if c == nil {
					return nil, err
				}
				return c.(traits.EnergyStorageApiClient), err
			})
		}},
	// ROUTER energystoragepb NewInfoRouter
	{Pkg: "energystoragepb", File: "info_router.pb.go", Ctor: "NewInfoRouter", Client: "EnergyStorageInfoClient",
		New:       func(o ...router.Option) routerT { return energystoragepb.NewInfoRouter(o...) },
		NewClient: func(cc grpc.ClientConnInterface) any { return traits.NewEnergyStorageInfoClient(cc) },
		TypedFactory: func(f func(string) (any, error)) router.Option {
			return energystoragepb.WithEnergyStorageInfoClientFactory(func(n string) (traits.EnergyStorageInfoClient, error) {
				c, err := f(n)
				if c == nil {
					return nil, err
				}
				return c.(traits.EnergyStorageInfoClient), err
			})
		}},
	// ROUTER enterleavesensorpb NewApiRouter
	{Pkg: "enterleavesensorpb", File: "api_router.pb.go", Ctor: "NewApiRouter", Client: "EnterLeaveSensorApiClient",
		New:       func(o ...router.Option) routerT { return enterleavesensorpb.NewApiRouter(o...) },
		NewClient: func(cc grpc.ClientConnInterface) any { return traits.NewEnterLeaveSensorApiClient(cc) },
		TypedFactory: func(f func(string) (any, error)) router.Option {
			return enterleavesensorpb.WithEnterLeaveSensorApiClientFactory(func(n string) (traits.EnterLeaveSensorApiClient, error) {
				c, err := f(n)
				if c == nil {
					return nil, err
				}
				return c.(traits.EnterLeaveSensorApiClient), err
			})
		}},
	// ROUTER enterleavesensorpb NewInfoRouter
	{Pkg: "enterleavesensorpb", File: "info_router.pb.go", Ctor: "NewInfoRouter", Client: "EnterLeaveSensorInfoClient",
		New:       func(o ...router.Option) routerT { return enterleavesensorpb.NewInfoRouter(o...) },
		NewClient: func(cc grpc.ClientConnInterface) any { return traits.NewEnterLeaveSensorInfoClient(cc) },
		TypedFactory: func(f func(string) (any, error)) router.Option {
			return enterleavesensorpb.WithEnterLeaveSensorInfoClientFactory(func(n string) (traits.EnterLeaveSensorInfoClient, error) {
				c, err := f(n)
				if c == nil {
					return nil, err
				}
				return c.(traits.EnterLeaveSensorInfoClient), err
			})
		}},
	// ROUTER extendretractpb NewApiRouter
	{Pkg: "extendretractpb", File: "api_router.pb.go", Ctor: "NewApiRouter", Client: "ExtendRetractApiClient",
		New:       func(o ...router.Option) routerT { return extendretractpb.NewApiRouter(o...) },
		NewClient: func(cc grpc.ClientConnInterface) any { return traits.NewExtendRetractApiClient(cc) },
		TypedFactory: func(f func(string) (any, error)) router.Option {
			return extendretractpb.WithExtendRetractApiClientFactory(func(n string) (traits.ExtendRetractApiClient, error) {
				c, err := f(n)
				if c == nil {
					return nil, err
				}
				return c.(traits.ExtendRetractApiClient), err
			})
		}},
	// ROUTER extendretractpb NewInfoRouter
	{Pkg: "extendretractpb", File: "info_router.pb.go", Ctor: "NewInfoRouter", Client: "ExtendRetractInfoClient",
		New:       func(o ...router.Option) routerT { return extendretractpb.NewInfoRouter(o...) },
		NewClient: func(cc grpc.ClientConnInterface) any { return traits.NewExtendRetractInfoClient(cc) },
		TypedFactory: func(f func(string) (any, error)) router.Option {
			return extendretractpb.WithExtendRetractInfoClientFactory(func(n string) (traits.ExtendRetractInfoClient, error) {
				c, err := f(n)
				if c == nil {
					return nil, err
				}
				return c.(traits.ExtendRetractInfoClient), err
			})
		}},
	// ROUTER fanspeedpb NewApiRouter
	{Pkg: "fanspeedpb", File: "api_router.pb.go", Ctor: "NewApiRouter", Client: "FanSpeedApiClient",
		New:       func(o ...router.Option) routerT { return fanspeedpb.NewApiRouter(o...) },
		NewClient: func(cc grpc.ClientConnInterface) any { return traits.NewFanSpeedApiClient(cc) },
		TypedFactory: func(f func(string) (any, error)) router.Option {
			return fanspeedpb.WithFanSpeedApiClientFactory(func(n string) (traits.FanSpeedApiClient, error) {
				c, err := f(n)
				if c == nil {
					return nil, err
				}
				return c.(traits.FanSpeedApiClient), err
			})
		}},
	// ROUTER fanspeedpb NewInfoRouter
	{Pkg: "fanspeedpb", File: "info_router.pb.go", Ctor: "NewInfoRouter", Client: "FanSpeedInfoClient",
		New:       func(o ...router.Option) routerT { return fanspeedpb.NewInfoRouter(o...) },
		NewClient: func(cc grpc.ClientConnInterface) any { return traits.NewFanSpeedInfoClient(cc) },
		TypedFactory: func(f func(string) (any, error)) router.Option {
			return fanspeedpb.WithFanSpeedInfoClientFactory(func(n string) (traits.FanSpeedInfoClient, error) {
				c, err := f(n)
				if c == nil {
					return nil, err
				}
				return c.(traits.FanSpeedInfoClient), err
			})
		}},
	// ROUTER hailpb NewApiRouter
	{Pkg: "hailpb", File: "api_router.pb.go", Ctor: "NewApiRouter", Client: "HailApiClient",
		New:       func(o ...router.Option) routerT { return hailpb.NewApiRouter(o...) },
		NewClient: func(cc grpc.ClientConnInterface) any { return traits.NewHailApiClient(cc) },
		TypedFactory: func(f func(string) (any, error)) router.Option {
			return hailpb.WithHailApiClientFactory(func(n string) (traits.HailApiClient, error) {
				c, err := f(n)
				if c == nil {
					return nil, err
				}
				return c.(traits.HailApiClient), err
			})
		}},
	// ROUTER hailpb NewInfoRouter
	{Pkg: "hailpb", File: "info_router.pb.go", Ctor: "NewInfoRouter", Client: "HailInfoClient",
		New:       func(o ...router.Option) routerT { return hailpb.NewInfoRouter(o...) },
		NewClient: func(cc grpc.ClientConnInterface) any { return traits.NewHailInfoClient(cc) },
		TypedFactory: func(f func(string) (any, error)) router.Option {
			return hailpb.WithHailInfoClientFactory(func(n string) (traits.HailInfoClient, error) {
				c, err := f(n)
				if c == nil {
					return nil, err
				}
				return c.(traits.HailInfoClient), err
			})
		}},
	// ROUTER inputselectpb NewApiRouter
	{Pkg: "inputselectpb", File: "api_router.pb.go", Ctor: "NewApiRouter", Client: "InputSelectApiClient",
		New:       func(o ...router.Option) routerT { return inputselectpb.NewApiRouter(o...) },
		NewClient: func(cc grpc.ClientConnInterface) any { return traits.NewInputSelectApiClient(cc) },
		TypedFactory: func(f func(string) (any, error)) router.Option {
			return inputselectpb.WithInputSelectApiClientFactory(func(n string) (traits.InputSelectApiClient, error) {
				c, err := f(n)
				if c == nil {
					return nil, err
				}
				return c.(traits.InputSelectApiClient), err
			})
		}},
	// ROUTER inputselectpb NewInfoRouter
	{Pkg: "inputselectpb", File: "info_router.pb.go", Ctor: "NewInfoRouter", Client: "InputSelectInfoClient",
		New:       func(o ...router.Option) routerT { return inputselectpb.NewInfoRouter(o...) },
		NewClient: func(cc grpc.ClientConnInterface) any { return traits.NewInputSelectInfoClient(cc) },
		TypedFactory: func(f func(string) (any, error)) router.Option {
			return inputselectpb.WithInputSelectInfoClientFactory(func(n string) (traits.InputSelectInfoClient, error) {
				c, err := f(n)
				if c == nil {
					return nil, err
				}
				return c.(traits.InputSelectInfoClient), err
			})
		}},
	// ROUTER lightpb NewApiRouter
	{Pkg: "lightpb", File: "api_router.pb.go", Ctor: "NewApiRouter", Client: "LightApiClient",
		New:       func(o ...router.Option) routerT { return lightpb.NewApiRouter(o...) },
		NewClient: func(cc grpc.ClientConnInterface) any { return traits.NewLightApiClient(cc) },
		TypedFactory: func(f func(string) (any, error)) router.Option {
			return lightpb.WithLightApiClientFactory(func(n string) (traits.LightApiClient, error) {
				c, err := f(n)
				if c == nil {
					return nil, err
				}
				return c.(traits.LightApiClient), err
			})
		}},
	// ROUTER lightpb NewInfoRouter
	{Pkg: "lightpb", File: "info_router.pb.go", Ctor: "NewInfoRouter", Client: "LightInfoClient",
		New:       func(o ...router.Option) routerT { return lightpb.NewInfoRouter(o...) },
		NewClient: func(cc grpc.ClientConnInterface) any { return traits.NewLightInfoClient(cc) },
		TypedFactory: func(f func(string) (any, error)) router.Option {
			return lightpb.WithLightInfoClientFactory(func(n string) (traits.LightInfoClient, error) {
				c, err := f(n)
				if c == nil {
					return nil, err
				}
				return c.(traits.LightInfoClient), err
			})
		}},
	// ROUTER lockunlockpb NewApiRouter
	{Pkg: "lockunlockpb", File: "api_router.pb.go", Ctor: "NewApiRouter", Client: "LockUnlockApiClient",
		New:       func(o ...router.Option) routerT { return lockunlockpb.NewApiRouter(o...) },
		NewClient: func(cc grpc.ClientConnInterface) any { return traits.NewLockUnlockApiClient(cc) },
		TypedFactory: func(f func(string) (any, error)) router.Option {
			return lockunlockpb.WithLockUnlockApiClientFactory(func(n string) (traits.LockUnlockApiClient, error) {
				c, err := f(n)
				if c == nil {
					return nil, err
				}
				return c.(traits.LockUnlockApiClient), err
			})
		}},
	// ROUTER lockunlockpb NewInfoRouter
	{Pkg: "lockunlockpb", File: "info_router.pb.go", Ctor: "NewInfoRouter", Client: "LockUnlockInfoClient",
		New:       func(o ...router.Option) routerT { return lockunlockpb.NewInfoRouter(o...) },
		NewClient: func(cc grpc.ClientConnInterface) any { return traits.NewLockUnlockInfoClient(cc) },
		TypedFactory: func(f func(string) (any, error)) router.Option {
			return lockunlockpb.WithLockUnlockInfoClientFactory(func(n string) (traits.LockUnlockInfoClient, error) {
				c, err := f(n)
				if c == nil {
					return nil, err
				}
				return c.(traits.LockUnlockInfoClient), err
			})
		}},
	// ROUTER metadatapb NewApiRouter
	{Pkg: "metadatapb", File: "api_router.pb.go", Ctor: "NewApiRouter", Client: "MetadataApiClient",
		New:       func(o ...router.Option) routerT { return metadatapb.NewApiRouter(o...) },
		NewClient: func(cc grpc.ClientConnInterface) any { return traits.NewMetadataApiClient(cc) },
		TypedFactory: func(f func(string) (any, error)) router.Option {
			return metadatapb.WithMetadataApiClientFactory(func(n string) (traits.MetadataApiClient, error) {
				c, err := f(n)
				if c == nil {
					return nil, err
				}
				return c.(traits.MetadataApiClient), err
			})
		}},
	// ROUTER metadatapb NewInfoRouter
	{Pkg: "metadatapb", File: "info_router.pb.go", Ctor: "NewInfoRouter", Client: "MetadataInfoClient",
		New:       func(o ...router.Option) routerT { return metadatapb.NewInfoRouter(o...) },
		NewClient: func(cc grpc.ClientConnInterface) any { return traits.NewMetadataInfoClient(cc) },
		TypedFactory: func(f func(string) (any, error)) router.Option {
			return metadatapb.WithMetadataInfoClientFactory(func(n string) (traits.MetadataInfoClient, error) {
				c, err := f(n)
				if c == nil {
					return nil, err
				}
				return c.(traits.MetadataInfoClient), err
			})
		}},
	// ROUTER meterpb NewApiRouter
	{Pkg: "meterpb", File: "api_router.pb.go", Ctor: "NewApiRouter", Client: "MeterApiClient",
		New:       func(o ...router.Option) routerT { return meterpb.NewApiRouter(o...) },
		NewClient: func(cc grpc.ClientConnInterface) any { return traits.NewMeterApiClient(cc) },
		TypedFactory: func(f func(string) (any, error)) router.Option {
			return meterpb.WithMeterApiClientFactory(func(n string) (traits.MeterApiClient, error) {
				c, err := f(n)
				if c == nil {
					return nil, err
				}
				return c.(traits.MeterApiClient), err
			})
		}},
	// ROUTER meterpb NewInfoRouter
	{Pkg: "meterpb", File: "info_router.pb.go", Ctor: "NewInfoRouter", Client: "MeterInfoClient",
		New:       func(o ...router.Option) routerT { return meterpb.NewInfoRouter(o...) },
		NewClient: func(cc grpc.ClientConnInterface) any { return traits.NewMeterInfoClient(cc) },
		TypedFactory: func(f func(string) (any, error)) router.Option {
			return meterpb.WithMeterInfoClientFactory(func(n string) (traits.MeterInfoClient, error) {
				c, err := f(n)
				if c == nil {
					return nil, err
				}
				return c.(traits.MeterInfoClient), err
			})
		}},
	// ROUTER microphonepb NewApiRouter
	{Pkg: "microphonepb", File: "api_router.pb.go", Ctor: "NewApiRouter", Client: "MicrophoneApiClient",
		New:       func(o ...router.Option) routerT { return microphonepb.NewApiRouter(o...) },
		NewClient: func(cc grpc.ClientConnInterface) any { return traits.NewMicrophoneApiClient(cc) },
		TypedFactory: func(f func(string) (any, error)) router.Option {
			return microphonepb.WithMicrophoneApiClientFactory(func(n string) (traits.MicrophoneApiClient, error) {
				c, err := f(n)
				if c == nil {
					return nil, err
				}
				return c.(traits.MicrophoneApiClient), err
			})
		}},
	// ROUTER microphonepb NewInfoRouter
	{Pkg: "microphonepb", File: "info_router.pb.go", Ctor: "NewInfoRouter", Client: "MicrophoneInfoClient",
		New:       func(o ...router.Option) routerT { return microphonepb.NewInfoRouter(o...) },
		NewClient: func(cc grpc.ClientConnInterface) any { return traits.NewMicrophoneInfoClient(cc) },
		TypedFactory: func(f func(string) (any, error)) router.Option {
			return microphonepb.WithMicrophoneInfoClientFactory(func(n string) (traits.MicrophoneInfoClient, error) {
				c, err := f(n)
				if c == nil {
					return nil, err
				}
				return c.(traits.MicrophoneInfoClient), err
			})
		}},
	// ROUTER modepb NewApiRouter
	{Pkg: "modepb", File: "api_router.pb.go", Ctor: "NewApiRouter", Client: "ModeApiClient",
		New:       func(o ...router.Option) routerT { return modepb.NewApiRouter(o...) },
		NewClient: func(cc grpc.ClientConnInterface) any { return traits.NewModeApiClient(cc) },
		TypedFactory: func(f func(string) (any, error)) router.Option {
			return modepb.WithModeApiClientFactory(func(n string) (traits.ModeApiClient, error) {
				c, err := f(n)
				if c == nil {
					return nil, err
				}
				return c.(traits.ModeApiClient), err
			})
		}},
	// ROUTER modepb NewInfoRouter
	{Pkg: "modepb", File: "info_router.pb.go", Ctor: "NewInfoRouter", Client: "ModeInfoClient",
		New:       func(o ...router.Option) routerT { return modepb.NewInfoRouter(o...) },
		NewClient: func(cc grpc.ClientConnInterface) any { return traits.NewModeInfoClient(cc) },
		TypedFactory: func(f func(string) (any, error)) router.Option {
			return modepb.WithModeInfoClientFactory(func(n string) (traits.ModeInfoClient, error) {
				c, err := f(n)
				if c == nil {
					return nil, err
				}
				return c.(traits.ModeInfoClient), err
			})
		}},
	// ROUTER motionsensorpb NewApiRouter
	{Pkg: "motionsensorpb", File: "api_router.pb.go", Ctor: "NewApiRouter", Client: "MotionSensorApiClient",
		New:       func(o ...router.Option) routerT { return motionsensorpb.NewApiRouter(o...) },
		NewClient: func(cc grpc.ClientConnInterface) any { return traits.NewMotionSensorApiClient(cc) },
		TypedFactory: func(f func(string) (any, error)) router.Option {
			return motionsensorpb.WithMotionSensorApiClientFactory(func(n string) (traits.MotionSensorApiClient, error) {
				c, err := f(n)
				if c == nil {
					return nil, err
				}
				return c.(traits.MotionSensorApiClient), err
			})
		}},
	// ROUTER motionsensorpb NewSensorInfoRouter
	{Pkg: "motionsensorpb", File: "info_router.pb.go", Ctor: "NewSensorInfoRouter", Client: "MotionSensorSensorInfoClient",
		New:       func(o ...router.Option) routerT { return motionsensorpb.NewSensorInfoRouter(o...) },
		NewClient: func(cc grpc.ClientConnInterface) any { return traits.NewMotionSensorSensorInfoClient(cc) },
		TypedFactory: func(f func(string) (any, error)) router.Option {
			return motionsensorpb.WithMotionSensorSensorInfoClientFactory(func(n string) (traits.MotionSensorSensorInfoClient, error) {
				c, err := f(n)
				if c == nil {
					return nil, err
				}
				return c.(traits.MotionSensorSensorInfoClient), err
			})
		}},
	// ROUTER occupancysensorpb NewApiRouter
	{Pkg: "occupancysensorpb", File: "api_router.pb.go", Ctor: "NewApiRouter", Client: "OccupancySensorApiClient",
		New:       func(o ...router.Option) routerT { return occupancysensorpb.NewApiRouter(o...) },
		NewClient: func(cc grpc.ClientConnInterface) any { return traits.NewOccupancySensorApiClient(cc) },
		TypedFactory: func(f func(string) (any, error)) router.Option {
			return occupancysensorpb.WithOccupancySensorApiClientFactory(func(n string) (traits.OccupancySensorApiClient, error) {
				c, err := f(n)
				if c == nil {
					return nil, err
				}
				return c.(traits.OccupancySensorApiClient), err
			})
		}},
	// ROUTER occupancysensorpb NewInfoRouter
	{Pkg: "occupancysensorpb", File: "info_router.pb.go", Ctor: "NewInfoRouter", Client: "OccupancySensorInfoClient",
		New:       func(o ...router.Option) routerT { return occupancysensorpb.NewInfoRouter(o...) },
		NewClient: func(cc grpc.ClientConnInterface) any { return traits.NewOccupancySensorInfoClient(cc) },
		TypedFactory: func(f func(string) (any, error)) router.Option {
			return occupancysensorpb.WithOccupancySensorInfoClientFactory(func(n string) (traits.OccupancySensorInfoClient, error) {
				c, err := f(n)
				if c == nil {
					return nil, err
				}
				return c.(traits.OccupancySensorInfoClient), err
			})
		}},
	// ROUTER onoffpb NewApiRouter
	{Pkg: "onoffpb", File: "api_router.pb.go", Ctor: "NewApiRouter", Client: "OnOffApiClient",
		New:       func(o ...router.Option) routerT { return onoffpb.NewApiRouter(o...) },
		NewClient: func(cc grpc.ClientConnInterface) any { return traits.NewOnOffApiClient(cc) },
		TypedFactory: func(f func(string) (any, error)) router.Option {
			return onoffpb.WithOnOffApiClientFactory(func(n string) (traits.OnOffApiClient, error) {
				c, err := f(n)
				if c == nil {
					return nil, err
				}
				return c.(traits.OnOffApiClient), err
			})
		}},
	// ROUTER onoffpb NewInfoRouter
	{Pkg: "onoffpb", File: "info_router.pb.go", Ctor: "NewInfoRouter", Client: "OnOffInfoClient",
		New:       func(o ...router.Option) routerT { return onoffpb.NewInfoRouter(o...) },
		NewClient: func(cc grpc.ClientConnInterface) any { return traits.NewOnOffInfoClient(cc) },
		TypedFactory: func(f func(string) (any, error)) router.Option {
			return onoffpb.WithOnOffInfoClientFactory(func(n string) (traits.OnOffInfoClient, error) {
				c, err := f(n)
				if c == nil {
					return nil, err
				}
				return c.(traits.OnOffInfoClient), err
			})
		}},
	// ROUTER openclosepb NewApiRouter
	{Pkg: "openclosepb", File: "api_router.pb.go", Ctor: "NewApiRouter", Client: "OpenCloseApiClient",
		New:       func(o ...router.Option) routerT { return openclosepb.NewApiRouter(o...) },
		NewClient: func(cc grpc.ClientConnInterface) any { return traits.NewOpenCloseApiClient(cc) },
		TypedFactory: func(f func(string) (any, error)) router.Option {
			return openclosepb.WithOpenCloseApiClientFactory(func(n string) (traits.OpenCloseApiClient, error) {
				c, err := f(n)
				if c == nil {
					return nil, err
				}
				return c.(traits.OpenCloseApiClient), err
			})
		}},
	// ROUTER openclosepb NewInfoRouter
	{Pkg: "openclosepb", File: "info_router.pb.go", Ctor: "NewInfoRouter", Client: "OpenCloseInfoClient",
		New:       func(o ...router.Option) routerT { return openclosepb.NewInfoRouter(o...) },
		NewClient: func(cc grpc.ClientConnInterface) any { return traits.NewOpenCloseInfoClient(cc) },
		TypedFactory: func(f func(string) (any, error)) router.Option {
			return openclosepb.WithOpenCloseInfoClientFactory(func(n string) (traits.OpenCloseInfoClient, error) {
				c, err := f(n)
				if c == nil {
					return nil, err
				}
				return c.(traits.OpenCloseInfoClient), err
			})
		}},
	// ROUTER parentpb NewApiRouter
	{Pkg: "parentpb", File: "api_router.pb.go", Ctor: "NewApiRouter", Client: "ParentApiClient",
		New:       func(o ...router.Option) routerT { return parentpb.NewApiRouter(o...) },
		NewClient: func(cc grpc.ClientConnInterface) any { return traits.NewParentApiClient(cc) },
		TypedFactory: func(f func(string) (any, error)) router.Option {
			return parentpb.WithParentApiClientFactory(func(n string) (traits.ParentApiClient, error) {
				c, err := f(n)
				if c == nil {
					return nil, err
				}
				return c.(traits.ParentApiClient), err
			})
		}},
	// ROUTER parentpb NewInfoRouter
	{Pkg: "parentpb", File: "info_router.pb.go", Ctor: "NewInfoRouter", Client: "ParentInfoClient",
		New:       func(o ...router.Option) routerT { return parentpb.NewInfoRouter(o...) },
		NewClient: func(cc grpc.ClientConnInterface) any { return traits.NewParentInfoClient(cc) },
		TypedFactory: func(f func(string) (any, error)) router.Option {
			return parentpb.WithParentInfoClientFactory(func(n string) (traits.ParentInfoClient, error) {
				c, err := f(n)
				if c == nil {
					return nil, err
				}
				return c.(traits.ParentInfoClient), err
			})
		}},
	// ROUTER presspb NewApiRouter
	{Pkg: "presspb", File: "api_router.pb.go", Ctor: "NewApiRouter", Client: "PressApiClient",
		New:       func(o ...router.Option) routerT { return presspb.NewApiRouter(o...) },
		NewClient: func(cc grpc.ClientConnInterface) any { return traits.NewPressApiClient(cc) },
		TypedFactory: func(f func(string) (any, error)) router.Option {
			return presspb.WithPressApiClientFactory(func(n string) (traits.PressApiClient, error) {
				c, err := f(n)
				if c == nil {
					return nil, err
				}
				return c.(traits.PressApiClient), err
			})
		}},
	// ROUTER ptzpb NewApiRouter
	{Pkg: "ptzpb", File: "api_router.pb.go", Ctor: "NewApiRouter", Client: "PtzApiClient",
		New:       func(o ...router.Option) routerT { return ptzpb.NewApiRouter(o...) },
		NewClient: func(cc grpc.ClientConnInterface) any { return traits.NewPtzApiClient(cc) },
		TypedFactory: func(f func(string) (any, error)) router.Option {
			return ptzpb.WithPtzApiClientFactory(func(n string) (traits.PtzApiClient, error) {
				c, err := f(n)
				if c == nil {
					return nil, err
				}
				return c.(traits.PtzApiClient), err
			})
		}},
	// ROUTER ptzpb NewInfoRouter
	{Pkg: "ptzpb", File: "info_router.pb.go", Ctor: "NewInfoRouter", Client: "PtzInfoClient",
		New:       func(o ...router.Option) routerT { return ptzpb.NewInfoRouter(o...) },
		NewClient: func(cc grpc.ClientConnInterface) any { return traits.NewPtzInfoClient(cc) },
		TypedFactory: func(f func(string) (any, error)) router.Option {
			return ptzpb.WithPtzInfoClientFactory(func(n string) (traits.PtzInfoClient, error) {
				c, err := f(n)
				if c == nil {
					return nil, err
				}
				return c.(traits.PtzInfoClient), err
			})
		}},
	// ROUTER publicationpb NewApiRouter
	{Pkg: "publicationpb", File: "api_router.pb.go", Ctor: "NewApiRouter", Client: "PublicationApiClient",
		New:       func(o ...router.Option) routerT { return publicationpb.NewApiRouter(o...) },
		NewClient: func(cc grpc.ClientConnInterface) any { return traits.NewPublicationApiClient(cc) },
		TypedFactory: func(f func(string) (any, error)) router.Option {
			return publicationpb.WithPublicationApiClientFactory(func(n string) (traits.PublicationApiClient, error) {
				c, err := f(n)
				if c == nil {
					return nil, err
				}
				return c.(traits.PublicationApiClient), err
			})
		}},
	// ROUTER speakerpb NewApiRouter
	{Pkg: "speakerpb", File: "api_router.pb.go", Ctor: "NewApiRouter", Client: "SpeakerApiClient",
		New:       func(o ...router.Option) routerT { return speakerpb.NewApiRouter(o...) },
		NewClient: func(cc grpc.ClientConnInterface) any { return traits.NewSpeakerApiClient(cc) },
		TypedFactory: func(f func(string) (any, error)) router.Option {
			return speakerpb.WithSpeakerApiClientFactory(func(n string) (traits.SpeakerApiClient, error) {
				c, err := f(n)
				if c == nil {
					return nil, err
				}
				return c.(traits.SpeakerApiClient), err
			})
		}},
	// ROUTER speakerpb NewInfoRouter
	{Pkg: "speakerpb", File: "info_router.pb.go", Ctor: "NewInfoRouter", Client: "SpeakerInfoClient",
		New:       func(o ...router.Option) routerT { return speakerpb.NewInfoRouter(o...) },
		NewClient: func(cc grpc.ClientConnInterface) any { return traits.NewSpeakerInfoClient(cc) },
		TypedFactory: func(f func(string) (any, error)) router.Option {
			return speakerpb.WithSpeakerInfoClientFactory(func(n string) (traits.SpeakerInfoClient, error) {
				c, err := f(n)
				if c == nil {
					return nil, err
				}
				return c.(traits.SpeakerInfoClient), err
			})
		}},
	// ROUTER temperaturepb NewApiRouter
	{Pkg: "temperaturepb", File: "api_router.pb.go", Ctor: "NewApiRouter", Client: "TemperatureApiClient",
		New:       func(o ...router.Option) routerT { return temperaturepb.NewApiRouter(o...) },
		NewClient: func(cc grpc.ClientConnInterface) any { return traits.NewTemperatureApiClient(cc) },
		TypedFactory: func(f func(string) (any, error)) router.Option {
			return temperaturepb.WithTemperatureApiClientFactory(func(n string) (traits.TemperatureApiClient, error) {
				c, err := f(n)
				if c == nil {
					return nil, err
				}
				return c.(traits.TemperatureApiClient), err
			})
		}},
	// ROUTER vendingpb NewApiRouter
	{Pkg: "vendingpb", File: "api_router.pb.go", Ctor: "NewApiRouter", Client: "VendingApiClient",
		New:       func(o ...router.Option) routerT { return vendingpb.NewApiRouter(o...) },
		NewClient: func(cc grpc.ClientConnInterface) any { return traits.NewVendingApiClient(cc) },
		TypedFactory: func(f func(string) (any, error)) router.Option {
			return vendingpb.WithVendingApiClientFactory(func(n string) (traits.VendingApiClient, error) {
				c, err := f(n)
				if c == nil {
					return nil, err
				}
				return c.(traits.VendingApiClient), err
			})
		}},
	// ROUTER vendingpb NewInfoRouter
	{Pkg: "vendingpb", File: "info_router.pb.go", Ctor: "NewInfoRouter", Client: "VendingInfoClient",
		New:       func(o ...router.Option) routerT { return vendingpb.NewInfoRouter(o...) },
		NewClient: func(cc grpc.ClientConnInterface) any { return traits.NewVendingInfoClient(cc) },
		TypedFactory: func(f func(string) (any, error)) router.Option {
			return vendingpb.WithVendingInfoClientFactory(func(n string) (traits.VendingInfoClient, error) {
				c, err := f(n)
				if c == nil {
					return nil, err
				}
				return c.(traits.VendingInfoClient), err
			})
		}},
	// ROUTER wastepb NewApiRouter
	{Pkg: "wastepb", File: "api_router.pb.go", Ctor: "NewApiRouter", Client: "WasteApiClient",
		New:       func(o ...router.Option) routerT { return wastepb.NewApiRouter(o...) },
		NewClient: func(cc grpc.ClientConnInterface) any { return traits.NewWasteApiClient(cc) },
		TypedFactory: func(f func(string) (any, error)) router.Option {
			return wastepb.WithWasteApiClientFactory(func(n string) (traits.WasteApiClient, error) {
				c, err := f(n)
				if c == nil {
					return nil, err
				}
				return c.(traits.WasteApiClient), err
			})
		}},
	// ROUTER wastepb NewInfoRouter
	{Pkg: "wastepb", File: "info_router.pb.go", Ctor: "NewInfoRouter", Client: "WasteInfoClient",
		New:       func(o ...router.Option) routerT { return wastepb.NewInfoRouter(o...) },
		NewClient: func(cc grpc.ClientConnInterface) any { return traits.NewWasteInfoClient(cc) },
		TypedFactory: func(f func(string) (any, error)) router.Option {
			return wastepb.WithWasteInfoClientFactory(func(n string) (traits.WasteInfoClient, error) {
				c, err := f(n)
				if c == nil {
					return nil, err
				}
				return c.(traits.WasteInfoClient), err
			})
		}},
}
