---------------------------- MODULE PagingTrace ----------------------------
(***************************************************************************)
(* Trace use of Paging.tla (C15).  Every line of obs.ndjson is one token   *)
(* chain the harness followed on a real model server: the requested page   *)
(* size, the class of the first token, and for every answer the items      *)
(* (as 1-based positions in the model's own un-paged listing, 0 = not in   *)
(* it), total_size and status.  Fails(t) is the set of clauses of the      *)
(* property the line falsifies.  Only what the property text states is     *)
(* asserted:                                                               *)
(*   - never a panic, never a chain that does not stop (bound 2n+5)        *)
(*   - negative page size, undecodable token: an error status              *)
(*   - a walk from the first page: every item exactly once in listing      *)
(*     order, pages no larger than requested (default / cap), total_size   *)
(*     = number of items on every page, no error on the way                *)
(*   - a walk after a history of writes ("hist" lines): the same, and the   *)
(*     pages concatenated are exactly the key set the specification        *)
(*     computes from the collection the case started with and the writes   *)
(*     (a write that returned an error leaves the listing as it was, an    *)
(*     accepted one changes it the way its kind says); total_size is the   *)
(*     size of that set.  Whether a write is accepted is not judged here.  *)
(*   - "sched" lines are walks whose page size changes from call to call   *)
(*     (t.sizes, all non-negative): the same clauses, page i against the   *)
(*     size call i asked for.                                              *)
(* Not asserted (the text does not settle them): the exact page            *)
(* boundaries (short or empty pages are allowed, so equality with the      *)
(* reference Walk is reported as information only); which status code an   *)
(* error carries; whether a decodable token that this listing never issued *)
(* (another oneof arm, a key that is not in the listing, an index outside  *)
(* 0..n) is "malformed" -- for those only no-panic and termination.        *)
(***************************************************************************)
EXTENDS Paging

Obs == ndJsonDeserialize("obs.ndjson")

If(b, name) == IF b THEN {} ELSE {name}

\* token classes of the harness that do not decode: spec token Garbage
Malformed == {"garbage-base64", "garbage-proto", "garbage-utf8",
              "garbage-text", "garbage-float", "garbage-overflow"}
AbsTok(t) == IF t.tclass \in Malformed THEN Garbage ELSE NoTok
\* the specification answers this request with an error (and the property text says so)
MustFail(t) == Rejected(t.scheme, AbsTok(t), t.size)

ItemFails(t) ==
  IF t.flat = [i \in 1..t.n |-> i] THEN {}
  ELSE LET seen == Range(t.flat) IN
       If(0 \notin seen, "item-not-in-listing")
       \cup If(Cardinality(seen) = Len(t.flat), "item-repeated")
       \cup If((1..t.n) \subseteq seen, "item-missing")
       \cup If(~(0 \notin seen /\ Cardinality(seen) = Len(t.flat) /\ (1..t.n) \subseteq seen), "items-out-of-listing-order")

\* the key set after the writes the real model saw: History of Paging.tla with the observed
\* outcome in place of Refuses (eff is the documented effect of the concrete call when accepted)
ApplyObs(K, o) == IF ~o.sup \/ ~o.ok THEN K
                  ELSE IF o.eff = "add" THEN K \cup {o.key}
                  ELSE IF o.eff = "remove" THEN K \ {o.key}
                  ELSE K
RECURSIVE HistoryObs(_, _)
HistoryObs(K, ops) == IF ops = <<>> THEN K ELSE HistoryObs(ApplyObs(K, Head(ops)), Tail(ops))
Written(t) == HistoryObs(Range(t.init), t.ops)

HistFails(t) ==
  LET E == Written(t) IN
  (IF t.err = "OK" /\ t.ended
   THEN If(Len(t.flatKeys) = Cardinality(E) /\ Range(t.flatKeys) = E, "pages-differ-from-written-contents")
   ELSE {})
  \cup If(\A i \in 1..Len(t.totals) : t.totals[i] = Cardinality(E), "total-size-differs-from-written-contents")

Fails(t) ==
  If(t.panic = "", "panic")
  \cup (IF t.panic # "" THEN {}
        ELSE If(t.ended, "token-chain-did-not-end")
             \cup (IF MustFail(t)
                   THEN If(t.first # "OK", IF t.size < 0 THEN "negative-size-accepted" ELSE "malformed-token-accepted")
                   ELSE {})
             \cup (IF t.k = "hist" THEN HistFails(t) ELSE {})
             \cup (IF t.k \in {"walk", "hist", "sched"} /\ ~MustFail(t)
                   THEN If(t.err = "OK", "error-on-valid-request")
                        \cup (IF t.err = "OK" /\ t.ended THEN ItemFails(t) ELSE {})
                        \cup If(\A i \in 1..Len(t.lens) : Allowed(SizeOfCall(t.sizes, i), t.lens[i]), "page-larger-than-requested")
                        \cup If(\A i \in 1..Len(t.totals) : t.totals[i] = t.n, "total-size")
                   ELSE {}))

BadLines == { k \in 1..Len(Obs) : Fails(Obs[k]) # {} }
TraceInit == c = 0
TraceNext == UNCHANGED c
EmitBad == \A k \in BadLines : PrintT("BAD " \o ToJson([line |-> k, fails |-> Fails(Obs[k])]))
TraceChecked == EmitBad /\ PrintT("CHECKED " \o ToString(Len(Obs)))
=============================================================================
