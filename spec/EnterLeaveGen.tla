---------------------------- MODULE EnterLeaveGen ----------------------------
(***************************************************************************)
(* Gen use of EnterLeave.tla: an initial event with any subset of the two *)
(* totals (or none: the default model), then 10..MaxOps events in random  *)
(* directions (enter / leave / unspecified), each total drawn relative to *)
(* the model's current counter (absent, equal, +1, -1, far away,          *)
(* absolute), "echo" events cloned from the last event read, and resets.  *)
(***************************************************************************)
EXTENDS EnterLeave, TLC, Json

CONSTANTS NCases, MaxOps
VARIABLE c

R(S) == RandomElement(S)
Flip(z, pct) == RandomElement(1..100) <= pct
Pick(z, seq) == seq[RandomElement(1..Len(seq))]
OptTotal(z, pct) == IF Flip(z, pct) THEN Some(R(0..12)) ELSE None

\* a total the event carries, RELATIVE to the model's counter at that moment (resolved by the harness):
\* absent, the current value, current +/- 1, far away (current + 7), or an absolute value
Rel(z) == LET how == Pick(z, <<"absent", "absent", "current", "current", "current+1", "current-1", "far", "abs">>)
          IN [how |-> how, v |-> R(0..12)]
\* echo: the event is the last event read (GetEnterLeaveEvent) with only the direction set -- both current totals
Op(z) ==
  LET op == Pick(z, <<"Event", "Event", "Event", "Event", "Event", "Event", "Event", "Event", "Reset">>)
  IN [op |-> op, dir |-> Pick(z, <<"ENTER", "ENTER", "LEAVE", "LEAVE", "DIRECTION_UNSPECIFIED">>),
      echo |-> Flip(z, 15), se |-> Rel(z), sl |-> Rel(z)]

\* a random permutation of a sequence
RECURSIVE Shuffle(_, _)
Shuffle(z, s) == IF s = <<>> THEN <<>>
                 ELSE LET i == RandomElement(1..Len(s))
                      IN <<s[i]>> \o Shuffle(z, [j \in 1..(Len(s) - 1) |-> IF j < i THEN s[j] ELSE s[j + 1]])

Prog(k) ==
  LET hasInit == Flip(k, 70)
      none == [kind |-> "clock", init |-> DefaultInit, via |-> "model"]
      opts == Shuffle(k, (IF hasInit THEN <<[none EXCEPT !.kind = "init", !.init = [enter |-> OptTotal(k, 60), leave |-> OptTotal(k, 60)],
                                                          !.via = Pick(k, <<"model", "model", "resource">>)]>> ELSE <<>>)
                         \o (IF Flip(k, 50) THEN <<none>> ELSE <<>>))
  IN [model |-> "enterleave", n |-> k,
      cfg |-> [opts |-> opts, hasInit |-> HasOpt(opts, "init"), init |-> ConfInit(opts)],
      ops |-> [j \in 1..R(10..MaxOps) |-> Op(k)]]

GenInit == c \in { Prog(k) : k \in 1..NCases }
GenNext == UNCHANGED c
EmitCase == PrintT("CASE " \o ToJson(c))
=============================================================================
