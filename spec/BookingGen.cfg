INIT GenInit
NEXT GenNext
INVARIANT EmitCase
