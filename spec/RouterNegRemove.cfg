INIT MCInit
NEXT MCNext
INVARIANT EveryReportIsATransition
CONSTANTS
  NCases = 0
  Recheck = TRUE
  Precheck = TRUE
  NMutators = 2
  NGetters = 0
  MaxMut = 1
