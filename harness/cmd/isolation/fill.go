package main

import (
	"math/rand"
	"sort"
	"time"

	"google.golang.org/protobuf/proto"
	"google.golang.org/protobuf/reflect/protoreflect"
	"google.golang.org/protobuf/types/known/fieldmaskpb"

	"github.com/smart-core-os/sc-golang/pkg/resource"
)

// small pools so that ids, names and values collide often
var strPool = []string{"a", "b", "c", "d", "e"}

// filler bounds the size of random messages: grow = how much more likely fields of nested messages are populated,
// maxDepth = nesting depth below which no further messages are created.
type filler struct{ grow, maxDepth int }

var (
	smallFiller = filler{grow: 20, maxDepth: 3} // the trait messages: a handful of fields each
	wideFiller  = filler{grow: 0, maxDepth: 2}  // testproto.TestAllTypes: ~100 fields, recursive
)

func fill(r *rand.Rand, m protoreflect.Message, pct, depth int) {
	f := smallFiller
	if m.Descriptor().Fields().Len() > 40 {
		f = wideFiller
	}
	f.fill(r, m, pct, depth)
}

// fill populates m with random values from small domains.  pct = chance (in %) that a field is populated.
func (f filler) fill(r *rand.Rand, m protoreflect.Message, pct, depth int) {
	switch m.Descriptor().FullName() {
	case "google.protobuf.Timestamp":
		m.Set(m.Descriptor().Fields().ByName("seconds"), protoreflect.ValueOfInt64(int64(r.Intn(1000))))
		return
	case "google.protobuf.Duration":
		m.Set(m.Descriptor().Fields().ByName("seconds"), protoreflect.ValueOfInt64(int64(r.Intn(100))))
		return
	case "google.protobuf.FieldMask", "google.protobuf.Any":
		return
	}
	fds := m.Descriptor().Fields()
	for i := 0; i < fds.Len(); i++ {
		fd := fds.Get(i)
		if r.Intn(100) >= pct {
			continue
		}
		f.fillField(r, m, fd, pct, depth)
	}
}

// fillField populates one field of m.
func (f filler) fillField(r *rand.Rand, m protoreflect.Message, fd protoreflect.FieldDescriptor, pct, depth int) {
	switch {
	case fd.IsMap():
		mp := m.Mutable(fd).Map()
		for n := r.Intn(3); n >= 0; n-- {
			k := randScalar(r, fd.MapKey()).MapKey()
			if fd.MapValue().Message() != nil {
				v := mp.NewValue()
				f.fill(r, v.Message(), pct+f.grow, depth+1)
				mp.Set(k, v)
			} else {
				mp.Set(k, randScalar(r, fd.MapValue()))
			}
		}
	case fd.IsList():
		l := m.Mutable(fd).List()
		for n := r.Intn(4); n >= 0; n-- {
			if fd.Message() != nil {
				if depth >= f.maxDepth {
					break
				}
				v := l.NewElement()
				f.fill(r, v.Message(), pct+f.grow, depth+1)
				l.Append(v)
			} else {
				l.Append(randScalar(r, fd))
			}
		}
	case fd.Message() != nil:
		if depth >= f.maxDepth {
			return
		}
		f.fill(r, m.Mutable(fd).Message(), pct+f.grow, depth+1)
	default:
		m.Set(fd, randScalar(r, fd))
	}
}

func randScalar(r *rand.Rand, fd protoreflect.FieldDescriptor) protoreflect.Value {
	switch fd.Kind() {
	case protoreflect.BoolKind:
		return protoreflect.ValueOfBool(r.Intn(2) == 0)
	case protoreflect.EnumKind:
		vals := fd.Enum().Values()
		return protoreflect.ValueOfEnum(vals.Get(r.Intn(vals.Len())).Number())
	case protoreflect.Int32Kind, protoreflect.Sint32Kind, protoreflect.Sfixed32Kind:
		return protoreflect.ValueOfInt32(int32(r.Intn(4)))
	case protoreflect.Int64Kind, protoreflect.Sint64Kind, protoreflect.Sfixed64Kind:
		return protoreflect.ValueOfInt64(int64(r.Intn(4)))
	case protoreflect.Uint32Kind, protoreflect.Fixed32Kind:
		return protoreflect.ValueOfUint32(uint32(r.Intn(4)))
	case protoreflect.Uint64Kind, protoreflect.Fixed64Kind:
		return protoreflect.ValueOfUint64(uint64(r.Intn(4)))
	case protoreflect.FloatKind:
		return protoreflect.ValueOfFloat32(float32(r.Intn(9)) * 12.5)
	case protoreflect.DoubleKind:
		return protoreflect.ValueOfFloat64(float64(r.Intn(9)) * 12.5)
	case protoreflect.StringKind:
		return protoreflect.ValueOfString(strPool[r.Intn(len(strPool))])
	case protoreflect.BytesKind:
		b := make([]byte, 1+r.Intn(6))
		r.Read(b)
		return protoreflect.ValueOfBytes(b)
	}
	panic("unexpected kind " + fd.Kind().String())
}

// newMsg returns a randomly filled message of type T.
func newMsg[T proto.Message](e *env, pct int) T {
	var zero T
	m := zero.ProtoReflect().New()
	fill(e.r, m, pct, 0)
	return m.Interface().(T)
}

// randPaths returns a random field mask for message type md: top-level fields, sometimes one level deeper.
func randPaths(r *rand.Rand, md protoreflect.MessageDescriptor) []string {
	return randPathsL(r, md, false)
}

// randPathsL: throughLists also continues paths through repeated message fields ("states.open_percent"): not a valid
// google.protobuf.FieldMask path, but read masks are not validated and the filter applies it to every element.
func randPathsL(r *rand.Rand, md protoreflect.MessageDescriptor, throughLists bool) []string {
	fds := md.Fields()
	set := map[string]bool{}
	for n := 1 + r.Intn(3); n > 0; n-- {
		fd := fds.Get(r.Intn(fds.Len()))
		p := string(fd.Name())
		if sub := fd.Message(); sub != nil && !fd.IsMap() && (throughLists || !fd.IsList()) && sub.Fields().Len() > 0 && r.Intn(2) == 0 &&
			sub.FullName() != "google.protobuf.Timestamp" && sub.FullName() != "google.protobuf.Duration" {
			p += "." + string(sub.Fields().Get(r.Intn(sub.Fields().Len())).Name())
		}
		set[p] = true
	}
	res := make([]string, 0, len(set))
	for p := range set {
		res = append(res, p)
	}
	sort.Strings(res)
	return res
}

func randMask(r *rand.Rand, m proto.Message) *fieldmaskpb.FieldMask {
	return &fieldmaskpb.FieldMask{Paths: randPaths(r, m.ProtoReflect().Descriptor())}
}

// readOpts: mostly no mask (the read may then hand out the stored message itself), sometimes a mask.
func readOpts(e *env, m proto.Message) []resource.ReadOption {
	var opts []resource.ReadOption
	if e.flip(25) {
		opts = append(opts, resource.WithReadMask(&fieldmaskpb.FieldMask{Paths: randPathsL(e.r, m.ProtoReflect().Descriptor(), e.flip(50))}))
	}
	return opts
}

// pullOpts: read options of a subscription.
func pullOpts(e *env, m proto.Message) []resource.ReadOption {
	opts := readOpts(e, m)
	opts = append(opts, resource.WithBackpressure(e.flip(70)))
	if e.flip(25) {
		opts = append(opts, resource.WithUpdatesOnly(true))
	}
	return opts
}

// writeOpts: none, an update mask, a write time.
func writeOpts(e *env, m proto.Message) []resource.WriteOption {
	var opts []resource.WriteOption
	if e.flip(35) {
		opts = append(opts, resource.WithUpdateMask(randMask(e.r, m)))
	}
	if e.flip(15) {
		opts = append(opts, resource.WithWriteTime(time.Unix(int64(e.r.Intn(1000)), 0)))
	}
	return opts
}
