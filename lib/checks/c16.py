"""C16: message comparers are sound equivalences (pkg/cmp) and a resource configured with an
equivalence delivers exactly the non-equivalent changes (pkg/resource).

spec/Cmp.tla (reference semantics, MC laws, Gen) + harness/cmd/cmpx + spec/CmpTrace.tla (verdict)."""
import json

import vf

CHUNK = 20000


def kinds_of(cfg):
    ks = set()
    for terms in cfg["ms"]:
        for t in terms:
            for c in t["cs"]:
                ks.add(c["k"])
    return ks


def cfg_class(o):
    """Comparer kinds involved: the input class of a signature."""
    if o["k"] == "stream":
        ks = set(c["k"] for t in o["terms"] for c in t["cs"])
    else:
        ks = kinds_of(o["cfg"])
    if not ks:
        return "default"
    return "+".join(sorted(ks))


def signature(o, clause, cls, part_kinds=""):
    ks = cfg_class(o)
    if o["k"] == "stream":
        site = "stream-" + o["res"]
    else:
        site = "cmp"
        # reflexivity / symmetry of a configuration containing DurationValueWithinP is attributed to it
        # (configurations without it cover the other comparers on their own)
        if clause in ("not-reflexive", "not-symmetric") and "durp" in ks.split("+"):
            return "C16/cmp/DurationValueWithinP/" + clause
    parts = ["C16", site, clause]
    if cls:
        parts.append(cls)
    parts.append(part_kinds.strip(".").replace(".", "+") if part_kinds else ks)
    return "/".join(parts)


def nontrivial(o):
    if o["k"] == "cmp":
        return o["x"] != o["y"]
    return any(d["n"] == 0 for s, sub in zip(o["dl"], o["subs"]) for k, d in enumerate(s) if k >= sub["at"])


def run(ctx):
    thorough = ctx.tier == "thorough"
    # 1. MC: laws of the reference semantics (default comparer = equality of normal forms, reflexive /
    #    symmetric, own kind only, exact tolerance boundaries, And/Or)
    ctx.mc("Cmp", "CmpMC.cfg", consts={"NCases": 1, "Scope": 2 if thorough else 1},
           workers=vf.NCPU, deadlock=False, timeout=3000)
    # 2. Gen: comparer cases and stream histories from the specification
    n = 100000 if thorough else 3000
    gen = ctx.tlc("Cmp", "CmpGen.cfg", consts={"NCases": n, "Scope": 1}, workers=4, timeout=1800)
    cases = gen.cases()
    if len(cases) < n:
        raise vf.Inconclusive("Gen produced only %d cases" % len(cases))
    # 3. + 4. replay on the real code, TLC evaluates the property clauses on the results
    model_errors = []
    total = 0
    samples = {}
    for ci in range(0, len(cases), CHUNK):
        chunk = cases[ci:ci + CHUNK]
        cpath = ctx.write_ndjson("cases-%d.ndjson" % ci, chunk)
        obs_path = ctx.path("obs-%d.ndjson" % ci)
        p = ctx.run_harness(["run", "-cases", cpath, "-out", obs_path], timeout=1800, cmd="cmpx", check=False)
        if p.crash:
            cur = p.crash.get("current") or {}
            ctx.violation("C16/crash/%s" % (cur.get("k", "unknown")),
                          "the process was killed while executing a case: %s" % p.crash["message"], p.crash)
            continue
        if p.returncode != 0:
            raise vf.Inconclusive("harness cmpx failed rc=%d:\n%s" % (p.returncode, p.stdout[-3000:]))
        obs = ctx.read_ndjson(obs_path)
        if len(obs) != len(chunk):
            raise vf.Inconclusive("harness produced %d observations for %d cases" % (len(obs), len(chunk)))
        tr = ctx.tlc("CmpTrace", "CmpTrace.cfg", consts={"NCases": 1, "Scope": 1}, workers=1,
                     files={"obs.ndjson": obs_path}, timeout=3000)
        if not any(l.startswith('"CHECKED %d"' % len(obs)) for l in tr.out.splitlines()):
            raise vf.Inconclusive("trace check did not cover all %d observations:\n%s" % (len(obs), tr.out[-2000:]))
        total += len(obs)
        for o in obs:
            # evaluations: each comparer case is 4 + 2*components comparisons, each stream case one
            # delivery decision per (subscriber, write)
            if o["k"] == "cmp":
                ctx.count(4 + 2 * len(o["cfg"]["ms"]))
            else:
                ctx.count(sum(max(0, len(o["writes"]) - s["at"]) for s in o["subs"]))
            if nontrivial(o):
                ctx.distinct((o["k"], o["n"], o.get("x"), o.get("y"), o.get("cfg"), o.get("writes"), o.get("terms")))
            samples.setdefault((o["k"], cfg_class(o)), o)
        for b in tr.cases("BAD "):
            o = obs[b["line"] - 1]
            for f in b["fails"]:
                clause, cls, part_kinds = (f.split("|") + ["", ""])[:3]
                if clause == "MODEL":
                    model_errors.append((cls, o))
                    continue
                ctx.violation(signature(o, clause, cls, part_kinds),
                              "clause '%s'%s false on what the real code returned" % (clause, (" (" + cls + ")") if cls else ""),
                              o)
    ctx.cov["traces_validated_against_impl"] += total
    for key in sorted(samples)[:6]:
        ctx.sample(samples[key])
    if model_errors:
        raise vf.Inconclusive("the specification's reading of protobuf equality disagrees with proto.Equal on %d "
                              "cases (defect of the model or of the abstraction function), first: %s"
                              % (len(model_errors), json.dumps(model_errors[0][1])[:1500]))
    ctx.cov["rule"] = ("cases generated by TLC from spec/Cmp.tla: (a) pairs of abstract messages (TestAllTypes with "
                       "implicit/optional/repeated/map floats, well-known timestamps and durations singular, repeated, "
                       "in a map and nested, oneof, unknown fields; ForeignMessage; PullOnOffResponse with Change "
                       "messages; AudioLevelChange; nil and typed nil) = a random ancestor mutated in 0-2 places vs. "
                       "that mutated in 0-3 more places, plus every single replacement on 4 fixed ancestors, with "
                       "NaN/Inf/-0 in a third of the cases; comparer configurations (default, FloatValueApprox, "
                       "TimeValueWithin, DurationValueWithin, DurationValueWithinP, ValueAnd/ValueOr, And/Or) with "
                       "tolerances just below / at / above the actual leaf differences; four time scales and four "
                       "base instants; (b) write histories (random walk of small mutations) over a Value and a "
                       "Collection with a tolerance equivalence and three backpressured subscribers.  non-trivial = "
                       "the two messages differ / at least one delivery was suppressed; distinct = distinct case")


MANIFEST = {'engine': "spec/Cmp.tla + spec/CmpTrace.tla (TLC) + harness 'cmpx'",
 'technique': 'TLA+ reference semantics of protobuf equality with the change_time exception and of the tolerance '
              'comparers over exact integers; TLC laws (MC); TLC-generated message pairs / comparer configurations '
              'and write histories replayed on pkg/cmp and pkg/resource; TLC evaluates the property clauses on the '
              'real results',
 'text': 'Cmp.tla defines abstract messages (all field kinds that matter: implicit/optional/repeated/map floats, '
         'timestamps and durations singular/repeated/map/nested, oneof, unknown fields, Change messages, other '
         'types, nil), protobuf equality over them, and the tolerance comparers as partial functions over exact '
         'integers (floats as eighths, times in abstract units the harness maps to ns/ms/s/h). TLC model-checks '
         'the laws on every single-replacement pair of fixed ancestors: default comparer = equality of normal '
         'forms, reflexive/symmetric, tolerance boundaries (below/at/above), own-kind-only, And/Or. TLC then '
         'prints thousands of pairs obtained by mutating a common ancestor with comparer configurations whose '
         'tolerances sit around the actual differences; the harness builds the concrete messages, runs '
         'cmp.Equal(...) in both argument orders, each And/Or component on its own, against a copy (reflexivity), '
         'and proto.Equal as the reference; CmpTrace.tla evaluates the clauses on the results. Stream clause: '
         'TLC-generated write histories over a Value and a Collection configured with a tolerance equivalence; '
         'the harness is the receiver of three backpressured Pulls and records what each was handed per write; '
         "CmpTrace.tla checks every delivery decision against the value that subscriber really holds. "
         'Bounded model checking of the design plus conformance of the code on generated cases; not a proof.',
 'note': 'Trusted base: TLC evaluating the TLA+ predicates; the abstraction function harness/cmd/cmpx/abs.go '
         '(cross-checked on every case: the spec\'s protobuf equality must agree with proto.Equal, otherwise the '
         'run is INCONCLUSIVE); the verif hook points fwd.got/skip/sent/seeded and pub.before/del.removed used to '
         'know when a write\'s deliveries are complete. Not asserted (property text does not settle it): float '
         'tolerance on NaN/Inf, change_time present on one side only, a time tolerance vs differing change_times, '
         'what DurationValueWithinP accepts (only its reflexivity and symmetry), updates-only subscribers before '
         'their first delivery. Only exactly representable numbers are generated; IEEE rounding is out of scope.'}
