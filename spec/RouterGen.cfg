INIT GenInit
NEXT GenNext
INVARIANT EmitCase
CONSTANTS
  NGetters = 0
  MaxMut = 0
  Recheck = TRUE
  Precheck = FALSE
  NMutators = 1
