---------------------------- MODULE EnterLeaveMC ----------------------------
(***************************************************************************)
(* MC use of EnterLeave.tla from every initial subset of totals.  History *)
(* restates "totals as counters": a total equals the last value that was  *)
(* imposed on it (initial, supplied, reset) plus the number of events in  *)
(* its direction since.                                                   *)
(***************************************************************************)
EXTENDS EnterLeave, TLC

CONSTANT MaxTotal
VARIABLES st, base, cnt
vars == <<st, base, cnt>>

Opt == {None} \cup { Some(x) : x \in 0..MaxTotal }
Dirs == {"ENTER", "LEAVE", "DIRECTION_UNSPECIFIED"}

Init == /\ st \in [enter : Opt, leave : Opt]
        /\ base = [enter |-> Cur(st.enter), leave |-> Cur(st.leave)] /\ cnt = [enter |-> 0, leave |-> 0]
Track(f, supplied, counts) ==
  IF supplied.has /\ supplied.v # Cur(st[f]) THEN <<supplied.v, 0>>
  ELSE <<base[f], cnt[f] + (IF counts THEN 1 ELSE 0)>>
DoEvent == \E dir \in Dirs, se \in Opt, sl \in Opt :
             LET te == Track("enter", se, dir = "ENTER")
                 tl == Track("leave", sl, dir = "LEAVE")
             IN /\ st' = Event(st, dir, se, sl)
                /\ base' = [enter |-> te[1], leave |-> tl[1]] /\ cnt' = [enter |-> te[2], leave |-> tl[2]]
DoReset == st' = Reset(st) /\ base' = [enter |-> 0, leave |-> 0] /\ cnt' = [enter |-> 0, leave |-> 0]
Next == DoEvent \/ DoReset
Spec == Init /\ [][Next]_vars
Bounded == Cur(st.enter) <= MaxTotal + 2 /\ Cur(st.leave) <= MaxTotal + 2

TotalsAreCounters == Cur(st.enter) = base.enter + cnt.enter /\ Cur(st.leave) = base.leave + cnt.leave
NeverNegative == Cur(st.enter) >= 0 /\ Cur(st.leave) >= 0
\* one event moves at most one of the two counters by counting
OneDirection == [][ \A dir \in Dirs : st' = Event(st, dir, None, None) =>
                      (Cur(st'.enter) - Cur(st.enter)) + (Cur(st'.leave) - Cur(st.leave)) \in {0, 1} ]_vars
=============================================================================
