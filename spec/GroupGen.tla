---------------------------- MODULE GroupGen ----------------------------
(***************************************************************************)
(* Gen use of the C17 specification: the cases the harness replays on the *)
(* real group.Execute* functions.  A case fixes everything the property   *)
(* quantifies over: the strategy and entry point, the number of members,  *)
(* each member's planned outcome, which members are cancellation-aware,   *)
(* what kind of error each failing member returns (fk, see ek in          *)
(* GroupContract: plain, context.Canceled/DeadlineExceeded bare, wrapped, *)
(* as gRPC status -- independent of the state of the group's context),    *)
(* and the schedule: `order` is the sequence in which the harness lets    *)
(* the members return (0 = the caller cancels its own context, -1 = the   *)
(* caller's deadline passes).                                             *)
(*   Exhaustive: n in 0..MaxN x every outcome vector x every completion   *)
(*     order x 6 strategies x {Direct, Execute}; for n <= AwareN also     *)
(*     every set of cancellation-aware members x every position of a      *)
(*     caller-side cancel.                                                *)
(*     For n <= KindN: every assignment of error kinds to the failing     *)
(*     members x every completion order x the group's context live, or    *)
(*     cancelled / expired at every position x 6 strategies.              *)
(*   Random: NRand cases with up to MaxRandN members, random aware sets,  *)
(*     a caller-side cancel in about a third, also through the trait      *)
(*     group servers (api "OnOff", "Light").                              *)
(***************************************************************************)
EXTENDS GroupContract, Json

CONSTANTS MaxN, AwareN, KindN, NRand, MaxRandN
VARIABLE c

Plain(n) == [m \in 1..n |-> FALSE]
ErrKinds == {"plain", "canceled", "deadline", "wcanceled", "wdeadline", "gcanceled", "gdeadline"}
PlainErrs(n) == [m \in 1..n |-> "plain"]
InsertAt(s, k, x) == SubSeq(s, 1, k) \o <<x>> \o SubSeq(s, k + 1, Len(s))

Exhaustive ==
  UNION { { [kind |-> "exhaustive", strat |-> s, api |-> a, n |-> n, plan |-> p, fk |-> PlainErrs(n), aware |-> Plain(n), order |-> o] :
              s \in Strategies, a \in {"Direct", "Execute"}, p \in [1..n -> BOOLEAN], o \in Permutations(1..n) }
          : n \in 0..MaxN }

ExhaustiveAware ==
  UNION { { [kind |-> "exhaustive-aware", strat |-> s, api |-> "Execute", n |-> n, plan |-> p, fk |-> PlainErrs(n), aware |-> w,
             order |-> IF k = -1 THEN o ELSE InsertAt(o, k, 0)] :
              s \in Strategies, p \in [1..n -> BOOLEAN], w \in [1..n -> BOOLEAN] \ {Plain(n)},
              o \in Permutations(1..n), k \in -1..n }
          : n \in 1..AwareN }

\* (a succeeding member's kind is moot: "plain"; the all-plain assignments are in Exhaustive already)
\* (three members: one representative of each family of kinds, to keep the family at ~40 000 cases)
KindsOf(n) == IF n <= 2 THEN ErrKinds ELSE {"plain", "deadline", "wcanceled", "gcanceled"}
KindsFor(n, p) == {g \in [1..n -> KindsOf(n)] : (\A m \in 1..n : p[m] => g[m] = "plain") /\ g # PlainErrs(n)}
ExhaustiveKinds ==
  UNION { UNION { { [kind |-> "exhaustive-kinds", strat |-> s, api |-> "Execute", n |-> n, plan |-> p, fk |-> f, aware |-> Plain(n),
                     order |-> IF k = -1 THEN o ELSE InsertAt(o, k, e)] :
                      s \in Strategies, f \in KindsFor(n, p), o \in Permutations(1..n), k \in -1..n, e \in {0, -1} }
                  : p \in [1..n -> BOOLEAN] }
          : n \in 1..KindN }

RECURSIVE RandPerm(_)
RandPerm(S) == IF S = {} THEN <<>> ELSE LET x == RandomElement(S) IN <<x>> \o RandPerm(S \ {x})

Rand(k) ==
  LET n == IF RandomElement(1..10) <= 6 THEN RandomElement(5..MaxRandN) ELSE RandomElement(0..4)
      o == RandPerm(1..n)
      pok == RandomElement({20, 50, 80})              \* per-case success rate
      pcan == RandomElement(1..3) = 1
  IN [kind |-> "random", strat |-> RandomElement(Strategies),
      api |-> RandomElement({"Direct", "Execute", "Execute", "OnOff", "Light"}), n |-> n,
      plan |-> [m \in 1..n |-> RandomElement(1..100) <= pok],
      fk |-> [m \in 1..n |-> IF RandomElement(1..2) = 1 THEN "plain" ELSE RandomElement(ErrKinds)],
      aware |-> [m \in 1..n |-> RandomElement(BOOLEAN)],
      order |-> IF pcan THEN InsertAt(o, RandomElement(0..n), RandomElement({0, -1})) ELSE o]

GenInit == c \in Exhaustive \cup ExhaustiveAware \cup ExhaustiveKinds \cup { Rand(k) : k \in 1..NRand }
GenNext == UNCHANGED c
EmitCase == PrintT("CASE " \o ToJson(c))
=============================================================================
