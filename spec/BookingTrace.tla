---------------------------- MODULE BookingTrace ----------------------------
(***************************************************************************)
(* Trace use of Booking.tla (C08, booking part).  Every line of            *)
(* obs.ndjson is one step the harness 'bookingx' made on the real          *)
(* bookingpb.ModelServer: the contents before and after (ListBookings      *)
(* without filter), the call and its status, and for every open            *)
(* PullBookings stream its request, the fold of what it had received       *)
(* before the step (vb), what arrived because of the step (recv), and      *)
(* ListBookings with the same request before (ids, lbi) and after (la).    *)
(* Fails(k) is the set of clauses line k falsifies:                        *)
(*                                                                         *)
(*  list-*                ListBookings(request) is the collection of the   *)
(*                        bookings whose booked period Intersects the      *)
(*                        request (Booking.tla's own Intersects), in id    *)
(*                        order, projected by the read mask                *)
(*  seed-is-filtered-list a stream starts with that list as ADDs in id     *)
(*                        order; nothing with updates_only                 *)
(*  start-matching-is-ADD, stop-matching-is-REMOVE,                        *)
(*  matching-update-is-UPDATE, excluded-change-delivered                   *)
(*                        what a write sends to a stream is exactly        *)
(*                        Booking!Translate for that stream's predicate    *)
(*  nothing-written-but-delivered  a failed call / a read sends nothing    *)
(*  fold-equals-list      fold(stream) = ListBookings(same request) after  *)
(*                        every step                                       *)
(*                                                                         *)
(* Not judged: for an empty [t,t) or inverted booked / requested period    *)
(* the documented meaning ("a non-empty period enclosed by both") says     *)
(* "does not intersect", while pkg/time.PeriodsIntersect compares the      *)
(* bounds only and answers "intersects" when such a period lies strictly   *)
(* inside the other.  That is a statement about pkg/time, not about the    *)
(* include filter C08 speaks of: for those pairs membership is taken from  *)
(* the server's own ListBookings(request) (before: lbi, after: la), so the *)
(* List/Pull agreement is still checked, and the pairs are counted         *)
(* (UNSETTLED line).  A write that changes nothing may be announced as an  *)
(* UPDATE or not at all.  The old_value of a change is not judged.         *)
(***************************************************************************)
EXTENDS Booking

Obs == ndJsonDeserialize("obs.ndjson")

If(b, name) == IF b THEN {} ELSE {name}
Range(s) == { s[k] : k \in 1..Len(s) }
IdsOf(L) == { L[k].id : k \in 1..Len(L) }

AsMap(L) == [i \in Ids |-> IF \E k \in 1..Len(L) : L[k].id = i
                           THEN Some(L[CHOOSE k \in 1..Len(L) : L[k].id = i]) ELSE Absent]
SortedById(L) == /\ \A k \in 1..Len(L) : L[k].id \in Ids
                 /\ \A a \in 1..Len(L), b \in 1..Len(L) : a < b => L[a].id < L[b].id
Norm(recv) == [k \in 1..Len(recv) |-> [type |-> recv[k].type, id |-> recv[k].id, nok |-> recv[k].nok, nv |-> recv[k].nv]]

ReqOf(s) == [has |-> s.rh, s |-> s.rs, e |-> s.re]
\* the documented meaning settles the pair beyond doubt and the code is expected to agree
Settled(v, req) == ~Degenerate(Booked(v)) /\ ~Degenerate(req)
\* membership of a booking in the filtered collection of req: the spec's predicate; for an unsettled pair
\* what the server's own ListBookings(req) said (listed = its ids)
Member(ov, req, listed) ==
  ov.ok /\ (IF ~req.has THEN TRUE
            ELSE IF Settled(ov.v, req) THEN Intersects(Booked(ov.v), req)
            ELSE ov.v.id \in listed)

----------------------------------------------------------------------------
\* L = what ListBookings(req, rm) returned while the collection held `contents`
ListFails(L, contents, req, rm) ==
  LET M == AsMap(contents) IN
  If(SortedById(L), "list-order")
  \cup If(IdsOf(L) \subseteq IdsOf(contents), "list-has-unknown-booking")
  \cup UNION { IF req.has /\ ~Settled(contents[k], req) THEN {}
               ELSE LET v == contents[k] IN
                    If(Matches(v, req) => v.id \in IdsOf(L), "list-misses-intersecting-booking")
                    \cup If(v.id \in IdsOf(L) => Matches(v, req), "list-has-non-intersecting-booking")
             : k \in 1..Len(contents) }
  \cup If(\A k \in 1..Len(L) : (L[k].id \in Ids /\ M[L[k].id].ok) => L[k] = Proj(M[L[k].id].v, rm), "list-values")

IsWrite(t) == t.call.op \in {"create", "update", "checkin", "checkout"}

ViewAfter(s) == IF s.opened /\ s.uo THEN AsMap(s.la) ELSE Fold(AsMap(s.vb), Norm(s.recv))

DeliveryFails(t, s) ==
  LET req == ReqOf(s)
      got == Norm(s.recv) IN
  IF s.opened
  THEN If(got = (IF s.uo THEN <<>> ELSE Adds(s.la)), IF s.uo THEN "updates-only-sent-seed" ELSE "seed-is-filtered-list")
  ELSE IF ~IsWrite(t) \/ t.ret # "OK" \/ t.call.id \notin Ids
  THEN If(got = <<>>, "nothing-written-but-delivered")
  ELSE LET old  == AsMap(t.before)[t.call.id]
           new  == AsMap(t.after)[t.call.id]
           oi   == Member(old, req, Range(s.lbi))
           ni   == Member(new, req, IdsOf(s.la))
           want == Translate(old, new, oi, ni, s.rm) IN
       If(got = want \/ (old = new /\ got = <<>>),
          IF ~oi /\ ~ni THEN "excluded-change-delivered"
          ELSE IF ni /\ ~oi THEN "start-matching-is-ADD"
          ELSE IF oi /\ ~ni THEN "stop-matching-is-REMOVE"
          ELSE "matching-update-is-UPDATE")

At(sid, F) == { [sid |-> sid, f |-> f] : f \in F }     \* sid 0: the call itself

StreamFails(t, s) ==
  At(s.sid, { "C08:" \o f : f \in ListFails(s.la, t.after, ReqOf(s), s.rm)
                                  \cup DeliveryFails(t, s)
                                  \cup If(ViewAfter(s) = AsMap(s.la), "fold-equals-list")
                                  \cup If(~s.ended, "stream-ended")
                                  \cup If(~s.lost, "change-not-delivered") })

\* the harness reports the fold before the step: it must be the fold after the previous step of the same program
ChainFails(k) ==
  LET t == Obs[k] IN
  UNION { LET s == t.streams[j] IN
          At(s.sid,
             IF s.opened THEN If(s.vb = <<>>, "HARNESS:view-chain")
             ELSE IF k = 1 \/ Obs[k - 1].case # t.case THEN {"HARNESS:view-chain"}
             ELSE LET prev == { p \in Range(Obs[k - 1].streams) : p.sid = s.sid } IN
                  If(Cardinality(prev) = 1 /\ \A p \in prev : ViewAfter(p) = AsMap(s.vb) /\ SortedById(s.vb), "HARNESS:view-chain"))
        : j \in 1..Len(t.streams) }

Fails(k) ==
  LET t == Obs[k] IN
  At(0, If(t.panic = "", "C08:panic")
        \cup If(~t.timeout \/ \E j \in 1..Len(t.streams) : t.streams[j].lost, "HARNESS:timeout")
        \cup If(SortedById(t.before) /\ SortedById(t.after), "HARNESS:contents")
        \cup (IF t.call.op = "list"
              THEN { "C08:" \o f : f \in If(t.ret = "OK", "list-error")
                                         \cup ListFails(t.list, t.after, [has |-> t.call.rh, s |-> t.call.rs, e |-> t.call.re], t.call.rm) }
              ELSE {}))
  \cup UNION { StreamFails(t, t.streams[j]) : j \in 1..Len(t.streams) }
  \cup ChainFails(k)

\* (line, stream, id) of unsettled pairs, and those where the server's list differs from the documented meaning
Unsettled == { <<k, j, i>> \in (1..Len(Obs)) \X (1..MaxSubs) \X Ids :
                 /\ j <= Len(Obs[k].streams)
                 /\ LET s == Obs[k].streams[j]
                        ov == AsMap(Obs[k].after)[i] IN
                    ov.ok /\ s.rh /\ ~Settled(ov.v, ReqOf(s)) }
Differ == { x \in Unsettled : LET s == Obs[x[1]].streams[x[2]] IN x[3] \in IdsOf(s.la) }

BadLines == { k \in 1..Len(Obs) : Fails(k) # {} }
TraceInit == c = 0
TraceNext == UNCHANGED c
EmitBad == \A k \in BadLines : PrintT("BAD " \o ToJson([line |-> k, fails |-> Fails(k)]))
TraceChecked == /\ EmitBad
                /\ PrintT("UNSETTLED " \o ToJson([pairs |-> Cardinality(Unsettled), listed |-> Cardinality(Differ)]))
                /\ PrintT("CHECKED " \o ToString(Len(Obs)))
=============================================================================
