"""Per-property MANIFEST texts.  A property is only listed in MANIFEST.checks
once lib/checks/<id>.py exists."""

TLC_BASE = ("Trusted base: TLC 1.8.0 evaluating the TLA+ predicates; the Go abstraction function "
            "(harness/mini, Abs/Conc between spec messages and TestAllTypes); the harness reporting "
            "faithfully what the real code returned. ")

CHECKS = {
    "C01": {
        "engine": "spec/Resource.tla + ResourceMC/ResourceGen/ResourceTrace.tla (TLC) + harness 'resource'",
        "technique": "TLA+ sequential register/map specification; TLC model-checks it, generates random programs "
                     "(contents, options, call sequences), harness runs them on Value/Collection, TLC validates every "
                     "logged step against the specification's step functions",
        "text": "Resource.tla gives each call (Get, List, Set, Add, Update, Delete with the full write-option record) a "
                "step function returning error code, result, new contents, callback firings and emitted event. TLC "
                "model-checks the spec (store is a sorted map, failed calls are no-ops, generated ids fresh and "
                "usable, folded subscriber views equal List) and generates thousands of programs; the harness runs "
                "them on the real code with scripted clock/random source, logs the contents before and after every "
                "call (read back through the API) and TLC requires each logged step to equal the step function. "
                "Conformance on the generated programs, bounded model checking of the design; not a proof.",
        "note": TLC_BASE + "State is read back through Pull seeds and List (cross-checked); ids, times and the random "
                "source are abstracted to small alphabets.",
    },
    "C04": {
        "engine": "spec/Resource.tla + ResourceMC/ResourceGen/ResourceTrace.tla (TLC) + harness 'resource'",
        "technique": "TLA+ specification of the exact event per write and of what each kind of subscriber is handed; "
                     "TLC MC (fold = List), TLC-generated histories with 1-3 backpressured subscribers replayed, TLC "
                     "validates every delivery",
        "text": "For every write the spec fixes the emitted event (kind, id, old/new value, change time) and, per "
                "subscriber option set (updates-only, read mask, equivalence), exactly what is delivered, plus the "
                "seed block. The harness is itself the receiver of every subscription and uses hook points in the "
                "forwarding goroutines to know when a write's deliveries are complete; TLC compares each step's "
                "deliveries with the spec's.",
        "note": TLC_BASE + "Delivery completeness relies on the verif hook points fwd.got/skip/sent/seeded and "
                "pub.before/del.removed in pkg/resource.",
    },
    "C05": {
        "engine": "spec/Msg.tla + spec/Masks.tla (TLC) + harness 'masks'",
        "technique": "TLA+ reference semantics of masked writes; TLC laws (MC), TLC-generated tuples replayed on "
                     "FieldUpdater/Value/Collection, TLC evaluates the property predicates on the real results",
        "text": "TLC checks exhaustively over a small message/mask domain that the TLA+ reference merge satisfies "
                "frame, scalar-assignment, reset and empty-mask clauses; TLC then generates thousands of "
                "(stored, written, update mask, writable mask, extra-writable, reset mask) tuples, the harness runs "
                "each through masks.FieldUpdater, Value.Set and Collection.Update built from the working tree, and "
                "TLC evaluates the property clauses (and equality with the reference merge where the mask must be "
                "accepted) on every real result. Bounded model checking of the design plus conformance of the code "
                "on the generated tuples; not a proof for all messages.",
        "note": TLC_BASE + "Miniature schema (9 fields of TestAllTypes covering implicit/optional scalars, nested "
                "messages, repeated scalar/message, map, oneof) stands for all field kinds.",
    },
    "C06": {
        "engine": "spec/Msg.tla + spec/Masks.tla (TLC) + harness 'masks'",
        "technique": "TLA+ declarative projection; TLC laws (MC), TLC-generated (message, mask) pairs replayed on "
                     "ResponseFilter/Value/Collection/Pull, TLC compares real results with the projection",
        "text": "TLC checks projection laws (idempotent, monotone, parent+child = parent, leaf-wise "
                "characterisation) on the TLA+ Project operator, generates (message, mask) pairs including every "
                "single-path and systematically corrupted mask, the harness runs them through FilterClone, Filter, "
                "Value.Get, Collection.Get/List and Pull seed/update events, and TLC requires every result to equal "
                "the projection, the stored message to be unchanged, corrupted masks to be reported InvalidArgument "
                "and no read to panic.",
        "note": TLC_BASE + "Pull vias are only exercised for valid masks in-process (a panic in Pull's goroutine "
                "would kill the harness; such a crash is reported as a violation through crash attribution).",
    },
    "C08": {
        "engine": "spec/Resource.tla + ResourceMC/ResourceGen/ResourceTrace.tla (TLC) + harness 'resource'",
        "technique": "TLA+ specification of include-filtered List/Pull; TLC MC proves fold(filtered stream) = filtered "
                     "List on the spec for value-, id- and absence-sensitive predicates; generated histories x random "
                     "truth-table predicates replayed and validated by TLC",
        "text": "Include predicates are truth tables over (id, value class incl. absent). TLC checks on the spec that "
                "every subscriber's folded view equals List with the same predicate after every call, and validates "
                "each real delivery (ADD/REMOVE translation, nothing for excluded-to-excluded, seed = filtered list).",
        "note": TLC_BASE + "Predicates depend on the id and on the value's default_int32 class only.",
    },
}

NOT_APPLICABLE = []

ENGINES = [
    {"name": "tlc", "path": "/usr/local/bin/tlc", "serves_properties": [],
     "kind_free_text": "TLC 1.8.0 explicit-state model checker: MC of the specification library in spec/, case "
                       "generation (PrintT/ToJson) and trace validation (ndJsonDeserialize) against the real code"},
    {"name": "harness", "path": "harness/", "serves_properties": [],
     "kind_free_text": "Go program built on every check from /repo's working tree with -tags verif; replays "
                       "TLC-generated cases and records observations as ndjson"},
]

NOTES = ("Every check is ./bin/verif check <id> --tier quick|thorough; exit 0 = held, 1 = VIOLATION lines, "
         "2 = inconclusive (tool failure/timeout; never a violation). VERIF_REPO overrides /repo for scratch "
         "worktrees. Known findings: KNOWN_FINDINGS.txt.")
