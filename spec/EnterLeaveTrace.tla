---------------------------- MODULE EnterLeaveTrace ----------------------------
(***************************************************************************)
(* Trace use of EnterLeave.tla.  One line = one CreateEnterLeaveEvent or  *)
(* ResetTotals on the real model, with the totals before and after read   *)
(* through GetEnterLeaveEvent.  "New" = construction (pre = the initial   *)
(* event's totals, or the default).                                       *)
(***************************************************************************)
EXTENDS EnterLeave, TLC, Json

VARIABLE c
Obs == ndJsonDeserialize("obs.ndjson")
If(b, name) == IF b THEN {} ELSE {name}

Fails(t) ==
  IF t.panic # "" THEN {"panic"}
  ELSE IF t.op = "New" THEN If(t.post = t.pre, IF t.hasInit THEN "initial-totals-used" ELSE "default-totals")
  ELSE IF t.op = "Reset" THEN If(t.err = "OK", "err") \cup If(t.post = Reset(t.pre), "reset-totals")
  ELSE LET want == Event(t.pre, t.dir, t.se, t.sl) IN
       If(t.err = "OK", "err")
       \cup If(~Settled(t.se, t.pre.enter, t.dir = "ENTER") \/ t.post.enter = want.enter,
               IF t.se.has /\ t.se.v # Cur(t.pre.enter) THEN "supplied-enter-total-wins" ELSE "enter-total-counts")
       \cup If(~Settled(t.sl, t.pre.leave, t.dir = "LEAVE") \/ t.post.leave = want.leave,
               IF t.sl.has /\ t.sl.v # Cur(t.pre.leave) THEN "supplied-leave-total-wins" ELSE "leave-total-counts")

BadLines == { k \in 1..Len(Obs) : Fails(Obs[k]) # {} }
TraceInit == c = 0
TraceNext == UNCHANGED c
EmitBad == \A k \in BadLines : PrintT("BAD " \o ToJson([line |-> k, fails |-> Fails(Obs[k])]))
TraceChecked == EmitBad /\ PrintT("CHECKED " \o ToString(Len(Obs)))
=============================================================================
