SPECIFICATION Spec
INVARIANTS AllConsistent VersionInjective SuccessfulUpdateResets OnlyFirstAckChanges FirstAckRecords FailureIsNoop
VIEW ViewNoHist
