---------------------------- MODULE Vending ----------------------------
(***************************************************************************)
(* C20, vendingpb.Model + unitpb.Convert.  Inventory: stock records keyed *)
(* by consumable name, each with optional `used` and `remaining`          *)
(* quantities; consumables: the catalogue (names only here).              *)
(*                                                                         *)
(* A quantity is [unit, m]: m = the amount in THOUSANDTHS of its own unit *)
(* (an integer; the harness multiplies the float32 amount by 1000).  Only *)
(* amounts for which the arithmetic is exact are generated: LITER amounts *)
(* are multiples of 125 l and CUBIC_METER amounts multiples of 1/8 m3, so *)
(* that l <-> m3 conversion (factor 1000) and all sums are exact both in  *)
(* binary floating point and in TLC's 32-bit integers.  CUP <-> l/m3      *)
(* conversions are not exact and are not asserted (Exact below).          *)
(***************************************************************************)
EXTENDS Integers, Sequences, FiniteSets

\* EVERY value of the enum traits.Consumable.Unit, in enum order (the harness reports the enum's names and
\* VendingTrace refuses to judge if this list is not exactly that set).  UNIT_UNSPECIFIED is what a quantity
\* carries when the unit was left out, NO_UNIT counts items.
UnitOrder == <<"UNIT_UNSPECIFIED", "NO_UNIT", "METER", "LITER", "CUBIC_METER", "CUP", "KILOGRAM">>
Units == { UnitOrder[k] : k \in 1..Len(UnitOrder) }
Cat(u) == CASE u \in {"LITER", "CUBIC_METER", "CUP"} -> "volume"
            [] u = "METER" -> "length"
            [] u = "KILOGRAM" -> "weight"
            [] OTHER -> "none:" \o u        \* UNIT_UNSPECIFIED and NO_UNIT have no category: each converts only to itself
\* size of one unit in litres, for the exactly convertible volume units
Litres(u) == IF u = "CUBIC_METER" THEN 1000 ELSE 1
Exact(from, to) == from = to \/ Cat(from) # Cat(to) \/ {from, to} \subseteq {"LITER", "CUBIC_METER"}

\* [ok, m]: m thousandths of `from` expressed in thousandths of `to`
Convert(m, from, to) ==
  IF from = to THEN [ok |-> TRUE, m |-> m]
  ELSE IF Cat(from) # Cat(to) THEN [ok |-> FALSE, m |-> 0]
  ELSE IF Litres(from) >= Litres(to) THEN [ok |-> TRUE, m |-> m * (Litres(from) \div Litres(to))]
  ELSE [ok |-> TRUE, m |-> m \div (Litres(to) \div Litres(from))]

NameOrder == <<"coffee", "milk", "water">>
Names == { NameOrder[k] : k \in 1..Len(NameOrder) }
NRank(n) == CHOOSE k \in 1..Len(NameOrder) : NameOrder[k] = n

NoQ == [has |-> FALSE, unit |-> "NO_UNIT", m |-> 0]
Q(u, m) == [has |-> TRUE, unit |-> u, m |-> m]
NoStock == [has |-> FALSE, v |-> [name |-> "", used |-> NoQ, remaining |-> NoQ]]
SomeStock(s) == [has |-> TRUE, v |-> s]

\* state: [inv |-> stock records in name order, cons |-> consumable names in order]
InvNames(st) == { st.inv[k].name : k \in 1..Len(st.inv) }
HasStock(st, n) == n \in InvNames(st)
Stock(st, n) == st.inv[CHOOSE k \in 1..Len(st.inv) : st.inv[k].name = n]
PutStock(st, s) ==
  LET lo == SelectSeq(st.inv, LAMBDA x : NRank(x.name) < NRank(s.name))
      hi == SelectSeq(st.inv, LAMBDA x : NRank(x.name) > NRank(s.name))
  IN [st EXCEPT !.inv = lo \o <<s>> \o hi]
DelStock(st, n) == [st EXCEPT !.inv = SelectSeq(st.inv, LAMBDA x : x.name # n)]
Max(a, b) == IF a >= b THEN a ELSE b

(* Configuration = the SEQUENCE of options handed to NewModel:               *)
(*   [kind |-> "stock", stocks |-> <<..>>]  WithInitialStock, or             *)
(*                                          WithInventoryOption(records)     *)
(*   [kind |-> "cons",  cons |-> <<names>>] WithInitialConsumable, or        *)
(*                                          WithConsumablesOption(records)   *)
(*   [kind |-> "clock"]                     a plain resource option (both    *)
(*                                          collections)                     *)
(* each of the first two possibly several times ("additive").  Whatever the  *)
(* order and grouping: the stock given is the inventory, the consumables     *)
(* given are the consumables.                                                *)
RECURSIVE PutStocks(_, _)
PutStocks(st, ss) == IF ss = <<>> THEN st ELSE PutStocks(PutStock(st, Head(ss)), Tail(ss))
RECURSIVE ConfNames(_)
ConfNames(opts) == IF opts = <<>> THEN {}
                   ELSE ConfNames(Tail(opts)) \cup (IF Head(opts).kind = "cons" THEN { Head(opts).cons[k] : k \in 1..Len(Head(opts).cons) } ELSE {})
RECURSIVE ConfInv(_)
ConfInv(opts) == IF opts = <<>> THEN [inv |-> <<>>, cons |-> <<>>]
                 ELSE PutStocks(ConfInv(Tail(opts)), IF Head(opts).kind = "stock" THEN Head(opts).stocks ELSE <<>>)
ConfState(opts) == [inv |-> ConfInv(opts).inv, cons |-> SelectSeq(NameOrder, LAMBDA n : n \in ConfNames(opts))]

(* DispenseInstantly(name, q): used += q and remaining = max(0, remaining *)
(* - q), each converted to and kept in ITS OWN unit; a quantity that is   *)
(* absent stays absent.  If q cannot be converted to one of the units the *)
(* call reports an error and the stock is unchanged.                      *)
Dispense(st, n, q) ==
  IF ~HasStock(st, n) THEN [err |-> "NotFound", post |-> st, ret |-> NoStock]
  ELSE
  LET s == Stock(st, n)
      cu == IF s.used.has THEN Convert(q.m, q.unit, s.used.unit) ELSE [ok |-> TRUE, m |-> 0]
      cr == IF s.remaining.has THEN Convert(q.m, q.unit, s.remaining.unit) ELSE [ok |-> TRUE, m |-> 0]
  IN IF ~cu.ok \/ ~cr.ok THEN [err |-> "ConversionError", post |-> st, ret |-> NoStock]
     ELSE LET s2 == [s EXCEPT !.used = IF s.used.has THEN Q(s.used.unit, s.used.m + cu.m) ELSE NoQ,
                              !.remaining = IF s.remaining.has THEN Q(s.remaining.unit, Max(0, s.remaining.m - cr.m)) ELSE NoQ]
          IN [err |-> "OK", post |-> PutStock(st, s2), ret |-> SomeStock(s2)]
\* every conversion a Dispense needs is one the arithmetic is exact for, and the amounts it starts from are
\* eighths of their unit (an earlier CUP <-> l/m3 dispense may have left an amount float32 sums round on)
Eighths(q) == q.has => q.m % 125 = 0
DispenseExact(st, n, q) ==
  HasStock(st, n) => LET s == Stock(st, n) IN (s.used.has => Exact(q.unit, s.used.unit)) /\ Eighths(s.used)
                                               /\ (s.remaining.has => Exact(q.unit, s.remaining.unit)) /\ Eighths(s.remaining)

CreateStock(st, s) ==
  IF HasStock(st, s.name) THEN [err |-> "AlreadyExists", post |-> st, ret |-> NoStock]
  ELSE [err |-> "OK", post |-> PutStock(st, s), ret |-> SomeStock(s)]
DeleteStock(st, n) ==
  IF HasStock(st, n) THEN [err |-> "OK", post |-> DelStock(st, n), ret |-> SomeStock(Stock(st, n))]
  ELSE [err |-> "NotFound", post |-> st, ret |-> NoStock]
=============================================================================
