package main

import (
	"context"
	"time"

	"google.golang.org/protobuf/proto"

	"github.com/smart-core-os/sc-api/go/traits"
	"github.com/smart-core-os/sc-golang/pkg/resource"
	"github.com/smart-core-os/sc-golang/pkg/trait/accesspb"
	"github.com/smart-core-os/sc-golang/pkg/trait/airqualitysensorpb"
	"github.com/smart-core-os/sc-golang/pkg/trait/airtemperaturepb"
	"github.com/smart-core-os/sc-golang/pkg/trait/energystoragepb"
	"github.com/smart-core-os/sc-golang/pkg/trait/enterleavesensorpb"
	"github.com/smart-core-os/sc-golang/pkg/trait/fanspeedpb"
	"github.com/smart-core-os/sc-golang/pkg/trait/lightpb"
	"github.com/smart-core-os/sc-golang/pkg/trait/metadatapb"
	"github.com/smart-core-os/sc-golang/pkg/trait/meterpb"
	"github.com/smart-core-os/sc-golang/pkg/trait/modepb"
	"github.com/smart-core-os/sc-golang/pkg/trait/occupancysensorpb"
	"github.com/smart-core-os/sc-golang/pkg/trait/onoffpb"
	"github.com/smart-core-os/sc-golang/pkg/trait/openclosepb"
	"github.com/smart-core-os/sc-golang/pkg/trait/presspb"
	"github.com/smart-core-os/sc-golang/pkg/trait/vendingpb"
	"github.com/smart-core-os/sc-golang/pkg/trait/wastepb"
)

// The "dflt" family: trait models built with NO options, i.e. from their package's default options only, two or
// three instances per program.  Whatever a package-level default holds by reference (an initial message, a random
// source, a preset table, a comparer) is then shared by the instances, and the instances are used by different
// goroutines at once.  Kinds: d.<type>.get / d.<type>.upd / d.<type>.pull (spec/RaceOps.tla, DefaultModels).
type simpleModel struct {
	mk func() any
}

var simpleModels = map[string]simpleModel{}

// regSimple registers the three kinds of one model type.
func regSimple[M any, C any](typ string, mk func() M,
	get func(m M, pr *proc) proto.Message,
	upd func(m M, pr *proc) (proto.Message, error),
	pull func(m M, ctx context.Context) <-chan C,
	read func(c C)) {
	need := []string{"d." + typ}
	simpleModels[typ] = simpleModel{mk: func() any { return mk() }}
	inst := func(w *world, pr *proc) M { return w.simple[typ][pr.in].(M) }
	reg("d."+typ+".get", need, func(w *world, pr *proc) error {
		touch(get(inst(w, pr), pr))
		return nil
	})
	reg("d."+typ+".upd", need, func(w *world, pr *proc) error {
		res, err := upd(inst(w, pr), pr)
		if res != nil {
			touch(res)
		}
		return err
	})
	reg("d."+typ+".pull", need, func(w *world, pr *proc) error {
		ctx, cancel := context.WithCancel(w.root)
		consume(pr, pull(inst(w, pr), ctx), cancel, 2, read)
		return nil
	})
}

func msgOrNil[T proto.Message](m T, err error) (proto.Message, error) {
	var zero T
	if any(m) == any(zero) {
		return nil, err
	}
	return m, err
}

func init() {
	bp := resource.WithBackpressure(true)

	regSimple("onoff", func() *onoffpb.Model { return onoffpb.NewModel() },
		func(m *onoffpb.Model, pr *proc) proto.Message { v, _ := m.GetOnOff(); return v },
		func(m *onoffpb.Model, pr *proc) (proto.Message, error) {
			return msgOrNil(m.UpdateOnOff(&traits.OnOff{State: traits.OnOff_State(1 + pr.rnd.n(2))}))
		},
		func(m *onoffpb.Model, ctx context.Context) <-chan onoffpb.PullOnOffChange {
			return m.PullOnOff(ctx, bp)
		},
		func(c onoffpb.PullOnOffChange) { touch(c.Value); touchTime(c.ChangeTime) })

	regSimple("light", func() *lightpb.Model { return lightpb.NewModel() },
		func(m *lightpb.Model, pr *proc) proto.Message {
			for _, p := range m.ListPresets() {
				touch(p)
			}
			v, _ := m.GetBrightness()
			return v
		},
		func(m *lightpb.Model, pr *proc) (proto.Message, error) {
			return msgOrNil(m.UpdateBrightness(&traits.Brightness{LevelPercent: float32(pr.rnd.n(100))}))
		},
		func(m *lightpb.Model, ctx context.Context) <-chan lightpb.PullBrightnessChange {
			return m.PullBrightness(ctx, bp)
		},
		func(c lightpb.PullBrightnessChange) { touch(c.Value); touchTime(c.ChangeTime) })

	regSimple("fanspeed", func() *fanspeedpb.Model { return fanspeedpb.NewModel() },
		func(m *fanspeedpb.Model, pr *proc) proto.Message { return m.FanSpeed() },
		func(m *fanspeedpb.Model, pr *proc) (proto.Message, error) {
			switch pr.rnd.n(3) {
			case 0:
				return msgOrNil(m.UpdateFanSpeed(&traits.FanSpeed{Preset: fanspeedpb.DefaultPresets[pr.rnd.n(5)].Name}, resource.WithUpdatePaths("preset")))
			case 1:
				return msgOrNil(m.UpdateFanSpeed(&traits.FanSpeed{PresetIndex: int32(pr.rnd.n(7))}, resource.WithUpdatePaths("preset_index")))
			}
			return msgOrNil(m.UpdateFanSpeed(&traits.FanSpeed{Percentage: float32(pr.rnd.n(100))}, resource.WithUpdatePaths("percentage")))
		},
		func(m *fanspeedpb.Model, ctx context.Context) <-chan fanspeedpb.FanSpeedChange {
			return m.PullFanSpeed(ctx, bp)
		},
		func(c fanspeedpb.FanSpeedChange) { touch(c.Value); touchTime(c.ChangeTime) })

	regSimple("mode", func() *modepb.Model { return modepb.NewModel() },
		func(m *modepb.Model, pr *proc) proto.Message {
			touch(m.Modes()) // the package-level DefaultModes itself
			for _, v := range m.AvailableValues("spin") {
				touch(v)
			}
			return m.ModeValues()
		},
		func(m *modepb.Model, pr *proc) (proto.Message, error) {
			return msgOrNil(m.UpdateModeValues(&traits.ModeValues{Values: map[string]string{"spin": []string{"auto", "slow", "fast"}[pr.rnd.n(3)]}}))
		},
		func(m *modepb.Model, ctx context.Context) <-chan modepb.ModeValuesChange {
			return m.PullModeValues(ctx, bp)
		},
		func(c modepb.ModeValuesChange) { touch(c.Value); touchTime(c.ChangeTime) })

	regSimple("enterleave", func() *enterleavesensorpb.Model { return enterleavesensorpb.NewModel() },
		func(m *enterleavesensorpb.Model, pr *proc) proto.Message { v, _ := m.GetEnterLeaveEvent(); return v },
		func(m *enterleavesensorpb.Model, pr *proc) (proto.Message, error) {
			if pr.rnd.n(4) == 0 {
				return nil, m.ResetTotals()
			}
			return nil, m.CreateEnterLeaveEvent(&traits.EnterLeaveEvent{Direction: traits.EnterLeaveEvent_Direction(1 + pr.rnd.n(2))})
		},
		func(m *enterleavesensorpb.Model, ctx context.Context) <-chan enterleavesensorpb.EnterLeaveEventChange {
			return m.PullEnterLeaveEvents(ctx, bp)
		},
		func(c enterleavesensorpb.EnterLeaveEventChange) { touch(c.Value); touchTime(c.ChangeTime) })

	regSimple("airtemp", func() *airtemperaturepb.Model { return airtemperaturepb.NewModel() },
		func(m *airtemperaturepb.Model, pr *proc) proto.Message { v, _ := m.GetAirTemperature(); return v },
		func(m *airtemperaturepb.Model, pr *proc) (proto.Message, error) {
			return msgOrNil(m.UpdateAirTemperature(&traits.AirTemperature{AmbientHumidity: proto.Float32(float32(pr.rnd.n(100)))}))
		},
		func(m *airtemperaturepb.Model, ctx context.Context) <-chan airtemperaturepb.PullAirTemperatureChange {
			return m.PullAirTemperature(ctx, bp)
		},
		func(c airtemperaturepb.PullAirTemperatureChange) { touch(c.Value); touchTime(c.ChangeTime) })

	regSimple("airquality", func() *airqualitysensorpb.Model { return airqualitysensorpb.NewModel() },
		func(m *airqualitysensorpb.Model, pr *proc) proto.Message { v, _ := m.GetAirQuality(); return v },
		func(m *airqualitysensorpb.Model, pr *proc) (proto.Message, error) {
			return msgOrNil(m.UpdateAirQuality(&traits.AirQuality{CarbonDioxideLevel: proto.Float32(float32(400 + pr.rnd.n(100)))}))
		},
		func(m *airqualitysensorpb.Model, ctx context.Context) <-chan airqualitysensorpb.PullAirQualityChange {
			return m.PullAirQuality(ctx, bp)
		},
		func(c airqualitysensorpb.PullAirQualityChange) { touch(c.Value); touchTime(c.ChangeTime) })

	regSimple("energy", func() *energystoragepb.Model { return energystoragepb.NewModel() },
		func(m *energystoragepb.Model, pr *proc) proto.Message { v, _ := m.GetEnergyLevel(); return v },
		func(m *energystoragepb.Model, pr *proc) (proto.Message, error) {
			return msgOrNil(m.UpdateEnergyLevel(&traits.EnergyLevel{Quantity: &traits.EnergyLevel_Quantity{Percentage: float32(pr.rnd.n(100))}}))
		},
		func(m *energystoragepb.Model, ctx context.Context) <-chan energystoragepb.PullEnergyLevelChange {
			return m.PullEnergyLevel(ctx, bp)
		},
		func(c energystoragepb.PullEnergyLevelChange) { touch(c.Value); touchTime(c.ChangeTime) })

	regSimple("occupancy", func() *occupancysensorpb.Model { return occupancysensorpb.NewModel() },
		func(m *occupancysensorpb.Model, pr *proc) proto.Message { v, _ := m.GetOccupancy(); return v },
		func(m *occupancysensorpb.Model, pr *proc) (proto.Message, error) {
			return msgOrNil(m.SetOccupancy(&traits.Occupancy{State: traits.Occupancy_State(1 + pr.rnd.n(3)), PeopleCount: int32(pr.rnd.n(9))}))
		},
		func(m *occupancysensorpb.Model, ctx context.Context) <-chan occupancysensorpb.PullOccupancyChange {
			return m.PullOccupancy(ctx, bp)
		},
		func(c occupancysensorpb.PullOccupancyChange) { touch(c.Value); touchTime(c.ChangeTime) })

	regSimple("openclose", func() *openclosepb.Model { return openclosepb.NewModel() },
		func(m *openclosepb.Model, pr *proc) proto.Message {
			for _, p := range m.ListPresets() {
				touch(p)
			}
			v, _ := m.GetPositions()
			return v
		},
		func(m *openclosepb.Model, pr *proc) (proto.Message, error) {
			return msgOrNil(m.UpdatePositions(&traits.OpenClosePositions{States: []*traits.OpenClosePosition{{OpenPercent: float32(pr.rnd.n(100))}}}))
		},
		func(m *openclosepb.Model, ctx context.Context) <-chan openclosepb.PullOpenClosePositionsChange {
			return m.PullPositions(ctx, bp)
		},
		func(c openclosepb.PullOpenClosePositionsChange) { touch(c.Positions); touchTime(c.ChangeTime) })

	regSimple("meter", func() *meterpb.Model { return meterpb.NewModel() },
		func(m *meterpb.Model, pr *proc) proto.Message { v, _ := m.GetMeterReading(); return v },
		func(m *meterpb.Model, pr *proc) (proto.Message, error) {
			if pr.rnd.n(5) == 0 {
				return msgOrNil(m.Reset())
			}
			return msgOrNil(m.RecordReading(float32(pr.rnd.n(1000))))
		},
		func(m *meterpb.Model, ctx context.Context) <-chan meterpb.PullMeterReadingChange {
			return m.PullMeterReadings(ctx, bp)
		},
		func(c meterpb.PullMeterReadingChange) { touch(c.Value); touchTime(c.ChangeTime) })

	regSimple("access", func() *accesspb.Model { return accesspb.NewModel() },
		func(m *accesspb.Model, pr *proc) proto.Message { v, _ := m.GetLastAccessAttempt(); return v },
		func(m *accesspb.Model, pr *proc) (proto.Message, error) {
			return msgOrNil(m.UpdateLastAccessAttempt(&traits.AccessAttempt{Grant: traits.AccessAttempt_Grant(1 + pr.rnd.n(3)), Reason: pr.uniq("r")}))
		},
		func(m *accesspb.Model, ctx context.Context) <-chan accesspb.PullAccessAttemptsChange {
			return m.PullAccessAttempts(ctx, bp)
		},
		func(c accesspb.PullAccessAttemptsChange) { touch(c.Value); touchTime(c.ChangeTime) })

	regSimple("press", func() *presspb.Model { return presspb.NewModel(traits.PressedState_UNPRESSED) },
		func(m *presspb.Model, pr *proc) proto.Message { return m.GetPressedState() },
		func(m *presspb.Model, pr *proc) (proto.Message, error) {
			return msgOrNil(m.UpdatePressedState(&traits.PressedState{State: traits.PressedState_Press(1 + pr.rnd.n(2))}))
		},
		func(m *presspb.Model, ctx context.Context) <-chan presspb.PullPressedStateChange {
			return m.PullPressedState(ctx, bp)
		},
		func(c presspb.PullPressedStateChange) {
			touch(c.Value)
			touchTime(c.ChangeTime)
			useBool(c.LastSeedValue)
		})

	regSimple("vending", func() *vendingpb.Model { return vendingpb.NewModel() },
		func(m *vendingpb.Model, pr *proc) proto.Message {
			for _, c := range m.ListConsumables() {
				touch(c)
			}
			for _, s := range m.ListInventory() {
				touch(s)
			}
			return nil
		},
		func(m *vendingpb.Model, pr *proc) (proto.Message, error) {
			switch pr.rnd.n(3) {
			case 0:
				return msgOrNil(m.CreateConsumable(&traits.Consumable{DisplayName: pr.uniq("c")})) // generated name
			case 1:
				return msgOrNil(m.CreateStock(&traits.Consumable_Stock{Consumable: "water", Remaining: &traits.Consumable_Quantity{Amount: 10, Unit: traits.Consumable_LITER}}))
			}
			return msgOrNil(m.DispenseInstantly("water", &traits.Consumable_Quantity{Amount: 1, Unit: traits.Consumable_CUP}))
		},
		func(m *vendingpb.Model, ctx context.Context) <-chan vendingpb.InventoryChange {
			return m.PullInventory(ctx, bp)
		},
		func(c vendingpb.InventoryChange) {
			if c.OldValue != nil {
				touch(c.OldValue)
			}
			if c.NewValue != nil {
				touch(c.NewValue)
			}
			touchTime(c.ChangeTime)
		})

	regSimple("waste", func() *wastepb.Model { return wastepb.NewModel() },
		func(m *wastepb.Model, pr *proc) proto.Message {
			useInt(int64(m.GetWasteRecordCount()))
			for _, r := range m.ListWasteRecords(0, 5) {
				touch(r)
			}
			return nil
		},
		func(m *wastepb.Model, pr *proc) (proto.Message, error) {
			if pr.rnd.n(2) == 0 {
				return msgOrNil(m.AddWasteRecord(&traits.WasteRecord{Id: pr.uniq("w"), Weight: float32(pr.rnd.n(50))}))
			}
			return msgOrNil(m.GenerateWasteRecord(nil))
		},
		func(m *wastepb.Model, ctx context.Context) <-chan *traits.PullWasteRecordsResponse_Change {
			return m.PullWasteRecords(ctx, bp)
		},
		func(c *traits.PullWasteRecordsResponse_Change) { touch(c) })

	regSimple("metadata", func() *metadatapb.Model { return metadatapb.NewModel() },
		func(m *metadatapb.Model, pr *proc) proto.Message { v, _ := m.GetMetadata(); return v },
		func(m *metadatapb.Model, pr *proc) (proto.Message, error) {
			return msgOrNil(m.UpdateTraitMetadata(&traits.TraitMetadata{Name: []string{"t1", "t2"}[pr.rnd.n(2)], More: map[string]string{"u": pr.uniq("v")}}))
		},
		func(m *metadatapb.Model, ctx context.Context) <-chan *traits.PullMetadataResponse_Change {
			return m.PullMetadata(ctx, bp)
		},
		func(c *traits.PullMetadataResponse_Change) { touch(c) })

	_ = time.Second
}
