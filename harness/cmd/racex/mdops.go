package main

import (
	"context"
	"runtime"
	"time"

	"google.golang.org/grpc"
	"google.golang.org/grpc/metadata"

	"github.com/smart-core-os/sc-api/go/traits"
	"github.com/smart-core-os/sc-golang/internal/testproto"
	"github.com/smart-core-os/sc-golang/pkg/wrap"
)

// Operation kinds that aim at one window of wrapped calls on purpose: the handler keeps adding header and trailer
// metadata (several times, a non-empty map is already there, also after the headers were sent - this stream accepts
// that) while the client looks at Header() / Trailer() again and again, or ends a unary call early with grpc.Header /
// grpc.Trailer call options so that wrap's own collectMetadata reads the metadata while the handler is still busy.
// The client only reads what it is returned.  Shapes: unary (w.mdunary), server stream (w.mdstream), bidi (w.mdbidi,
// through a hand-written grpc.ServiceDesc, since no trait API has a bidi method).

const busyRounds = 150 // SetHeader/SetTrailer calls of one busy handler after the headers were sent

func busyMD(i int) metadata.MD { return metadata.Pairs("h", "v", "late", string(rune('a'+i%26))) }

// keepSettingMetadata is the body of a busy handler: it does not watch the context (a handler that has not noticed
// yet that the client went away), it is bounded by busyRounds.
func keepSettingMetadata(setHeader func(metadata.MD) error, setTrailer func(metadata.MD)) {
	for i := 0; i < busyRounds; i++ {
		_ = setHeader(busyMD(i))
		setTrailer(busyMD(i))
		if i%4 == 0 {
			runtime.Gosched()
		}
	}
}

func (s *hdrServer) busyUnary(ctx context.Context) {
	_ = grpc.SetHeader(ctx, metadata.Pairs("h", "first"))
	_ = grpc.SetTrailer(ctx, metadata.Pairs("h", "first"))
	_ = grpc.SendHeader(ctx, metadata.Pairs("h", "sent"))
	keepSettingMetadata(func(md metadata.MD) error { return grpc.SetHeader(ctx, md) }, func(md metadata.MD) { _ = grpc.SetTrailer(ctx, md) })
}

// ---- a bidi service described by hand --------------------------------------------------------------------------

type chatServer interface {
	Chat(stream grpc.ServerStream) error
}

type busyChat struct{}

func (busyChat) Chat(stream grpc.ServerStream) error {
	_ = stream.SetHeader(metadata.Pairs("h", "first"))
	stream.SetTrailer(metadata.Pairs("h", "first"))
	in := &testproto.TestAllTypes{}
	if err := stream.RecvMsg(in); err != nil {
		return err
	}
	touch(in)
	if err := stream.SendMsg(mkMsg(int(in.GetDefaultInt32()))); err != nil { // flushes the headers
		return err
	}
	keepSettingMetadata(stream.SetHeader, stream.SetTrailer)
	for {
		in := &testproto.TestAllTypes{}
		if err := stream.RecvMsg(in); err != nil {
			return nil // io.EOF after CloseSend, or the call has ended
		}
		if err := stream.SendMsg(mkMsg(int(in.GetDefaultInt32()) + 1)); err != nil {
			return err
		}
		stream.SetTrailer(metadata.Pairs("t", "echo"))
	}
}

var chatDesc = grpc.ServiceDesc{
	ServiceName: "racex.Chat",
	HandlerType: (*chatServer)(nil),
	Streams: []grpc.StreamDesc{{
		StreamName:    "Chat",
		ServerStreams: true,
		ClientStreams: true,
		Handler:       func(srv any, stream grpc.ServerStream) error { return srv.(chatServer).Chat(stream) },
	}},
}

func newChatConn() grpc.ClientConnInterface { return wrap.ServerToClient(chatDesc, busyChat{}) }

// peek reads Header() and Trailer() of a client stream n times; the maps it gets are its own to read.
func peek(cs grpc.ClientStream, n int) {
	for i := 0; i < n; i++ {
		hd, _ := cs.Header()
		touchMD(hd)
		touchMD(cs.Trailer())
		if i%3 == 0 {
			runtime.Gosched()
		}
	}
}

func init() {
	W := []string{"wrap"}

	// unary: the client ends the call (cancel) while the handler is busy; Invoke returns through collectMetadata
	reg("w.mdunary", W, func(w *world, pr *proc) error {
		for r := 0; r < 3; r++ {
			ctx, cancel := context.WithCancel(w.root)
			tm := time.AfterFunc(time.Duration(20+pr.rnd.n(120))*time.Microsecond, cancel)
			var hd, tr metadata.MD
			res, _ := w.wrapCli[pr.in].GetOnOff(ctx, &traits.GetOnOffRequest{Name: "busy"}, grpc.Header(&hd), grpc.Trailer(&tr))
			touch(res)
			touchMD(hd)
			touchMD(tr)
			tm.Stop()
			cancel()
		}
		return nil
	})
	// server stream: the client looks at the metadata again and again between and after the messages
	reg("w.mdstream", W, func(w *world, pr *proc) error {
		for r := 0; r < 2; r++ {
			ctx, cancel := context.WithCancel(w.root)
			stream, err := w.wrapCli[pr.in].PullOnOff(ctx, &traits.PullOnOffRequest{Name: "busy"})
			if err != nil {
				cancel()
				return err
			}
			tm := time.AfterFunc(4*waitEvents, cancel)
			if res, err := stream.Recv(); err == nil {
				touch(res)
				pr.events++
			}
			peek(stream, 25)
			cancel()
			for i := 0; i < 1000; i++ {
				if _, err := stream.Recv(); err != nil {
					break
				}
			}
			peek(stream, 10)
			tm.Stop()
		}
		return nil
	})
	// bidi: the client sends, receives, looks at the metadata while the handler keeps adding to it
	reg("w.mdbidi", W, func(w *world, pr *proc) error {
		for r := 0; r < 2; r++ {
			ctx, cancel := context.WithCancel(w.root)
			cs, err := w.chat[pr.in].NewStream(ctx, &chatDesc.Streams[0], "/racex.Chat/Chat")
			if err != nil {
				cancel()
				return err
			}
			tm := time.AfterFunc(4*waitEvents, cancel)
			out := &testproto.TestAllTypes{}
			if err := cs.SendMsg(pr.msg()); err == nil && cs.RecvMsg(out) == nil {
				touch(out)
				pr.events++
			}
			peek(cs, 25)
			if pr.rnd.n(2) == 0 {
				// end it properly: one more exchange, half-close, read to the end
				if err := cs.SendMsg(pr.msg()); err == nil {
					_ = cs.RecvMsg(out)
				}
				_ = cs.CloseSend()
				for i := 0; i < 100; i++ {
					if err := cs.RecvMsg(out); err != nil {
						break
					}
				}
			} else {
				cancel() // or just go away
			}
			peek(cs, 10)
			tm.Stop()
			cancel()
		}
		return nil
	})
}
