package main

import (
	"context"
	"encoding/json"
	"sort"

	"github.com/smart-core-os/sc-api/go/traits"
	"github.com/smart-core-os/sc-golang/pkg/trait/modepb"
	"github.com/smart-core-os/sc-golang/verifharness/hx"
)

// ---- ModeTrait.tla: selected values as [mode, value] pairs in mode-name order ----

type absMode struct {
	Name   string   `json:"name"`
	Values []string `json:"values"`
}
type modePair struct {
	Mode  string `json:"mode"`
	Value string `json:"value"`
}
type modeAdj struct {
	Mode string `json:"mode"`
	Adj  int    `json:"adj"`
}

func absModesOf(ms *traits.Modes) []absMode {
	res := []absMode{}
	for _, m := range ms.GetModes() {
		a := absMode{Name: m.GetName(), Values: []string{}}
		for _, v := range m.GetValues() {
			a.Values = append(a.Values, v.GetName())
		}
		res = append(res, a)
	}
	return res
}
func concModes(ms []absMode) *traits.Modes {
	res := &traits.Modes{}
	for _, m := range ms {
		cm := &traits.Modes_Mode{Name: m.Name}
		for _, v := range m.Values {
			cm.Values = append(cm.Values, &traits.Modes_Value{Name: v})
		}
		res.Modes = append(res.Modes, cm)
	}
	return res
}
func pairsOf(v *traits.ModeValues) []modePair {
	res := []modePair{}
	for k, val := range v.GetValues() {
		res = append(res, modePair{Mode: k, Value: val})
	}
	sort.Slice(res, func(i, j int) bool { return res[i].Mode < res[j].Mode })
	return res
}

type modeOp struct {
	Op   string     `json:"op"`
	Keep bool       `json:"keep"`
	Abs  []modePair `json:"abs"`
	Rel  []modeAdj  `json:"rel"`
}
type modeWalk struct {
	N   int `json:"n"`
	Cfg struct {
		Custom bool      `json:"custom"`
		Modes  []absMode `json:"modes"`
	} `json:"cfg"`
	Ops []modeOp `json:"ops"`
}
type modeObs struct {
	Model  string     `json:"model"`
	Walk   int        `json:"walk"`
	Step   int        `json:"step"`
	Op     string     `json:"op"`
	Custom bool       `json:"custom"`
	Modes  []absMode  `json:"modes"`
	Avail  []absMode  `json:"avail"`
	Abs    []modePair `json:"abs"`
	Rel    []modeAdj  `json:"rel"`
	Pre    []modePair `json:"pre"`
	Post   []modePair `json:"post"`
	Seed   []modePair `json:"seed"` // New: the values of the PullModeValues seed
	Ret    []modePair `json:"ret"`
	Err    string     `json:"err"`
	Panic  string     `json:"panic"`
}

func init() { register("mode", runMode) }

func runMode(raw json.RawMessage, out *hx.Out) {
	w := decode[modeWalk](raw)
	var m *modepb.Model
	o := modeObs{Model: "mode", Walk: w.N, Op: "New", Custom: w.Cfg.Custom, Modes: w.Cfg.Modes, Avail: []absMode{},
		Abs: []modePair{}, Rel: []modeAdj{}, Pre: []modePair{}, Post: []modePair{}, Ret: []modePair{}, Seed: []modePair{}, Err: "OK"}
	o.Panic = hx.Catch(func() {
		if w.Cfg.Custom {
			m = modepb.NewModelModes(concModes(w.Cfg.Modes))
		} else {
			m = modepb.NewModel()
		}
		o.Avail = absModesOf(m.Modes())
		o.Post = pairsOf(m.ModeValues())
		seed, _ := pullSeed(func(ctx context.Context) <-chan modepb.ModeValuesChange { return m.PullModeValues(ctx) }, 1)
		o.Seed = []modePair{{Mode: "<no seed>"}}
		if len(seed) == 1 {
			o.Seed = pairsOf(seed[0].Value)
		}
	})
	out.Write(o)
	if m == nil {
		return
	}
	srv := modepb.NewModelServer(m)
	for i, op := range w.Ops {
		o := modeObs{Model: "mode", Walk: w.N, Step: i + 1, Op: op.Op, Custom: w.Cfg.Custom, Modes: w.Cfg.Modes,
			Avail: []absMode{}, Abs: []modePair{}, Rel: op.Rel, Ret: []modePair{}, Seed: []modePair{}, Err: "OK"}
		if o.Rel == nil {
			o.Rel = []modeAdj{}
		}
		cur := m.ModeValues()
		o.Pre = pairsOf(cur)
		req := &traits.UpdateModeValuesRequest{}
		written := map[string]string{}
		if op.Keep {
			for k, v := range cur.GetValues() {
				written[k] = v
			}
		}
		for _, p := range op.Abs {
			written[p.Mode] = p.Value
		}
		if len(written) > 0 {
			req.ModeValues = &traits.ModeValues{Values: written}
		}
		o.Abs = pairsOf(req.ModeValues)
		if len(op.Rel) > 0 {
			req.Relative = &traits.ModeValuesRelative{Values: map[string]int32{}}
			for _, r := range op.Rel {
				req.Relative.Values[r.Mode] = int32(r.Adj)
			}
		}
		o.Panic = hx.Catch(func() {
			res, err := srv.UpdateModeValues(context.Background(), req)
			o.Err = hx.Code(err)
			if res != nil {
				o.Ret = pairsOf(res)
			}
		})
		o.Post = pairsOf(m.ModeValues())
		out.Write(o)
	}
}
