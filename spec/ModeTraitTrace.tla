---------------------------- MODULE ModeTraitTrace ----------------------------
(***************************************************************************)
(* Trace use of ModeTrait.tla.  One line = one UpdateModeValues RPC on    *)
(* the real ModelServer: the selected values before (Model.ModeValues),   *)
(* the request as sent, the response, the values afterwards; every line   *)
(* carries the mode list the model was constructed with.  "New" = the     *)
(* construction: avail = what Model.Modes() then reports.                 *)
(***************************************************************************)
EXTENDS ModeTrait, TLC, Json

VARIABLE c
Obs == ndJsonDeserialize("obs.ndjson")
If(b, name) == IF b THEN {} ELSE {name}

UpdateFails(t) ==
  LET pre == SetOf(t.pre)
      post == SetOf(t.post)
      \* only the modes named by the relative part are asserted, and only when their step is settled
      wrong == { k \in 1..Len(t.rel) :
                   /\ StepSettled(t.modes, pre, t.rel[k].mode)
                   /\ ~(HasValue(post, t.rel[k].mode) /\ ValueOf(post, t.rel[k].mode) = Stepped(t.modes, pre, t.rel[k].mode, t.rel[k].adj)) }
  IN If(wrong = {}, "relative-step-wraps")
     \cup If(t.err # "OK" \/ SetOf(t.ret) = post, "response-is-stored-value")

Fails(t) ==
  IF t.panic # "" THEN {"panic"}
  ELSE IF t.op = "New" THEN If(t.avail = t.modes, IF t.custom THEN "supplied-modes-used" ELSE "default-modes-used")
                            \cup If(SetOf(t.post) = InitialValues(t.modes), "first-value-of-each-mode-selected")
                            \* (modepb has one constructor argument and no options: nothing to order)
                            \cup If(t.seed = t.post, "pull-seed-is-first-read")
  ELSE UpdateFails(t)

BadLines == { k \in 1..Len(Obs) : Fails(Obs[k]) # {} }
TraceInit == c = 0
TraceNext == UNCHANGED c
EmitBad == \A k \in BadLines : PrintT("BAD " \o ToJson([line |-> k, fails |-> Fails(Obs[k])]))
TraceChecked == EmitBad /\ PrintT("CHECKED " \o ToString(Len(Obs)))
=============================================================================
