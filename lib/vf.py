"""Shared plumbing for the sc-golang model-based checks.

One check = one python module lib/checks/cNN.py exposing run(ctx) -> None.
The ctx object gives: scratch dir, tier, seed, TLC runners, the harness binary
(built from $VERIF_REPO's working tree with -tags verif), violation reporting
with known-finding filtering, and evidence writing.
"""
import hashlib
import json
import os
import re
import shutil
import signal
import subprocess
import sys
import tempfile
import time

VERIF = os.path.dirname(os.path.dirname(os.path.abspath(__file__)))
REPO = os.environ.get("VERIF_REPO", "/repo")
SPEC = os.path.join(VERIF, "spec")
HARNESS = os.path.join(VERIF, "harness")
NCPU = os.cpu_count() or 4

GOENV = dict(os.environ, GOFLAGS="-mod=mod", GOPROXY="off", GOSUMDB="off", GOTOOLCHAIN="local")


class Inconclusive(Exception):
    """Tool failure, timeout, dead driver: exit 2, never a violation."""


def sh(cmd, cwd=None, env=None, timeout=None, check=True, stdin=None):
    try:
        p = subprocess.run(cmd, cwd=cwd, env=env, timeout=timeout, stdin=stdin,
                           stdout=subprocess.PIPE, stderr=subprocess.STDOUT, text=True)
    except subprocess.TimeoutExpired as e:
        raise Inconclusive("timeout after %ss: %s" % (timeout, " ".join(cmd[:6])))
    if check and p.returncode != 0:
        raise Inconclusive("command failed (%d): %s\n%s" % (p.returncode, " ".join(cmd[:8]), p.stdout[-4000:]))
    return p


class TLCResult:
    def __init__(self, out, rc):
        self.out = out
        self.rc = rc
        self.states = 0
        self.distinct = 0
        m = None
        for m in re.finditer(r"(\d+) states generated, (\d+) distinct states found", out):
            pass
        if m:
            self.states = int(m.group(1))
            self.distinct = int(m.group(2))
        self.violated = re.findall(r"Error: Invariant (\S+) is violated", out)
        self.violated += re.findall(r"Error: Action property (\S+) is violated", out)
        if "Error: Temporal properties were violated" in out:
            self.violated.append("temporal")
        self.deadlock = "Error: Deadlock reached" in out
        self.ok = ("Model checking completed. No error has been found" in out) or \
                  ("Finished computing initial states" in out and rc == 0 and not self.violated)
        self.error = (rc != 0 and not self.violated and not self.deadlock)

    def cases(self, prefix="CASE "):
        """Lines printed by PrintT("CASE " \\o ToJson(x)) -> list of python objects."""
        res = []
        for line in self.out.splitlines():
            if line.startswith('"' + prefix):
                try:
                    s = json.loads(line)
                except Exception:
                    continue
                res.append(json.loads(s[len(prefix):]))
        return res

    def printed(self, tag):
        """Values printed with PrintT(<<"TAG", v>>): returns the raw text after the tag."""
        res = []
        for m in re.finditer(r'<<"%s", (.*)>>\s*$' % re.escape(tag), self.out, re.M):
            res.append(m.group(1))
        return res

    def coverage_zero(self):
        return re.findall(r"^<(\w+) line .*>: 0:0$", self.out, re.M)


def parse_tla_set_of_ints(txt):
    txt = txt.strip()
    if txt == "{}":
        return []
    m = re.match(r"^\{(.*)\}$", txt, re.S)
    if m:
        return [int(x) for x in m.group(1).split(",") if x.strip()]
    m = re.match(r"^(\d+)\.\.(\d+)$", txt)
    if m:
        return list(range(int(m.group(1)), int(m.group(2)) + 1))
    raise Inconclusive("cannot parse TLC set: " + txt[:200])


class Ctx:
    def __init__(self, prop, tier, seed):
        self.prop = prop
        self.tier = tier
        self.seed = seed
        self.t0 = time.time()
        self.scratch = tempfile.mkdtemp(prefix="verif-%s-" % prop)
        self.violations = []   # (signature, detail dict)
        self.known = []        # (signature, text)
        self.cov = {"samples": [], "evaluations": 0, "distinct_nontrivial": 0,
                    "states": 0, "transitions": 0, "traces_validated_against_impl": 0,
                    "tlc_runs": [], "notes": []}
        self.assumptions = []
        self._harness = None
        self._distinct = set()
        self.findings = load_known_findings()

    # ---------------------------------------------------------------- TLC
    def tlc(self, module, cfg, consts=None, workers=None, timeout=600, extra=None,
            files=None, cfg_text=None, simulate=None, deadlock=True, coverage=False):
        """Run TLC on spec/<module>.tla with spec/<cfg> (or cfg_text) in a scratch copy."""
        d = tempfile.mkdtemp(prefix="tlc-", dir=self.scratch)
        for f in os.listdir(SPEC):
            if f.endswith(".tla"):
                shutil.copy(os.path.join(SPEC, f), d)
        for name, path in (files or {}).items():
            shutil.copy(path, os.path.join(d, name))
        if cfg_text is None:
            cfg_text = open(os.path.join(SPEC, cfg)).read()
        if consts:
            lines = ["CONSTANTS"] + ["  %s = %s" % (k, v) for k, v in consts.items()]
            cfg_text = cfg_text + "\n" + "\n".join(lines) + "\n"
        with open(os.path.join(d, "run.cfg"), "w") as f:
            f.write(cfg_text)
        cmd = ["tlc", "-config", "run.cfg", "-metadir", os.path.join(d, "md"),
               "-workers", str(workers or min(NCPU, 8)), "-seed", str(self.seed)]
        if not deadlock:
            cmd.append("-deadlock")
        if coverage:
            cmd += ["-coverage", "1"]
        if simulate:
            cmd += ["-simulate", simulate]
        cmd += (extra or []) + [module + ".tla"]
        env = dict(os.environ)
        # TLC leaves an empty tlc-* directory in java.io.tmpdir on every run: keep it inside the scratch dir
        # (the JVM's default maximum heap is a quarter of the machine's memory for every TLC started; several at
        #  once were OOM-killed on a busy machine -- the largest configuration here peaks well below this cap)
        env.setdefault("JAVA_TOOL_OPTIONS", "-Xss64m -Xmx%s -Djava.io.tmpdir=%s" % (os.environ.get("VERIF_TLC_HEAP", "8g"), d))
        t = time.time()
        # own process group: a timeout kills this TLC (wrapper script + JVM) and nobody else's
        pr = subprocess.Popen(cmd, cwd=d, env=env, stdout=subprocess.PIPE, stderr=subprocess.STDOUT, text=True,
                              errors="replace", start_new_session=True)
        try:
            out, _ = pr.communicate(timeout=timeout)
        except subprocess.TimeoutExpired:
            try:
                os.killpg(pr.pid, signal.SIGKILL)
            except ProcessLookupError:
                pass
            pr.communicate()
            raise Inconclusive("TLC timeout (%ss) on %s/%s" % (timeout, module, cfg))
        p = subprocess.CompletedProcess(cmd, pr.returncode, out, None)
        res = TLCResult(p.stdout, p.returncode)
        res.dir = d
        res.wall = time.time() - t
        self.cov["tlc_runs"].append({"module": module, "cfg": cfg or "inline", "consts": consts or {},
                                     "generated": res.states, "distinct": res.distinct,
                                     "wall_s": round(res.wall, 2)})
        if res.error:
            raise Inconclusive("TLC failed on %s/%s (rc=%d):\n%s" % (module, cfg, p.returncode, p.stdout[-3000:]))
        return res

    def mc(self, module, cfg, **kw):
        """Model-check; a violated invariant of the *model* is a model-level failure
        (inconclusive for the code: the verdict only ever comes from the real code)."""
        res = self.tlc(module, cfg, **kw)
        self.cov["states"] += res.distinct
        self.cov["transitions"] += res.states
        if res.violated or res.deadlock:
            raise Inconclusive("model check of %s/%s failed: %s deadlock=%s\n%s" %
                               (module, cfg, res.violated, res.deadlock, res.out[-3000:]))
        return res

    # ------------------------------------------------------------ harness
    def harness(self, race=False, cmd="harness"):
        key = cmd + ("-race" if race else "-plain")
        if self._harness is None:
            self._harness = {}
        if key in self._harness:
            return self._harness[key]
        b = os.path.join(self.scratch, "build-" + key)
        os.makedirs(b, exist_ok=True)
        gomod = open(os.path.join(HARNESS, "go.mod")).read().replace("=> /repo", "=> " + REPO)
        open(os.path.join(b, "go.mod"), "w").write(gomod)
        shutil.copy(os.path.join(REPO, "go.sum"), os.path.join(b, "go.sum"))
        out = os.path.join(b, "harness")
        gocmd = ["go", "build", "-modfile=" + os.path.join(b, "go.mod"), "-tags", "verif", "-o", out]
        if race:
            gocmd.append("-race")
        gocmd.append("./cmd/" + cmd)
        p = sh(gocmd, cwd=HARNESS, env=GOENV, timeout=900, check=False)
        if p.returncode != 0:
            raise Inconclusive("harness build failed against %s:\n%s" % (REPO, p.stdout[-4000:]))
        self._harness[key] = out
        return out

    def run_harness(self, args, timeout=600, race=False, env=None, check=True, cmd="harness"):
        e = dict(GOENV)
        e["VERIF_SEED"] = str(self.seed)
        e["VERIF_TIER"] = self.tier
        cur = os.path.join(self.scratch, "current-%d.json" % len(self.cov["tlc_runs"]))
        e["VERIF_CURRENT"] = cur
        if env:
            e.update(env)
        p = sh([self.harness(race=race, cmd=cmd)] + args, cwd=self.scratch, env=e, timeout=timeout, check=False)
        # crash attribution: a Go panic / fatal error that killed the harness while it was executing the
        # case it last announced with hx.Current(...)
        p.crash = None
        if p.returncode != 0 and ("panic:" in p.stdout or "fatal error:" in p.stdout):
            current = None
            if os.path.exists(cur):
                try:
                    current = json.load(open(cur))
                except Exception:
                    current = None
            m = re.search(r"^(panic:.*|fatal error:.*)$", p.stdout, re.M)
            frames = [l.strip() for l in p.stdout.splitlines() if "sc-golang/pkg" in l or "sc-golang/internal" in l]
            p.crash = {"current": current, "message": m.group(1) if m else "", "frames": frames[:6],
                       "trace": p.stdout[-3000:]}
            if not check:
                return p
        if check and p.returncode != 0:
            raise Inconclusive("harness %s failed rc=%d:\n%s" % (args[:3], p.returncode, p.stdout[-4000:]))
        return p

    # ------------------------------------------------------------ verdicts
    def path(self, name):
        return os.path.join(self.scratch, name)

    def write_ndjson(self, name, rows):
        p = self.path(name)
        with open(p, "w") as f:
            for r in rows:
                f.write(json.dumps(r, separators=(",", ":")) + "\n")
        return p

    def read_ndjson(self, path):
        rows = []
        with open(path) as f:
            for line in f:
                line = line.strip()
                if line:
                    rows.append(json.loads(line))
        return rows

    def sample(self, obj, limit=6):
        if len(self.cov["samples"]) < limit:
            self.cov["samples"].append(obj)

    def count(self, n=1):
        self.cov["evaluations"] += n

    def distinct(self, key):
        """Register one non-trivial case by a hashable key; counted once."""
        h = hashlib.sha1(json.dumps(key, sort_keys=True, default=str).encode()).digest()[:10]
        self._distinct.add(h)

    def violation(self, signature, what, witness):
        """A property predicate was false on an observation of the real code."""
        for f in self.findings:
            if f["kind"] == "finding" and f["property"] == self.prop and sig_match(f["signature"], signature):
                if signature not in [k[0] for k in self.known]:
                    self.known.append((signature, f["text"]))
                return
        self.violations.append((signature, what, witness))

    def finish(self, level="model_checking"):
        wall = time.time() - self.t0
        self.cov["distinct_nontrivial"] = len(self._distinct)
        if not self.cov.get("rule"):
            self.cov["rule"] = "see DESIGN.md"
        ev = {
            "property_id": self.prop, "tier": self.tier, "seed": self.seed, "level": level,
            "coverage": self.cov, "assumptions": self.assumptions, "wall_s": round(wall, 2),
            "violations": len(self.violations),
        }
        ev["coverage"]["known_findings_reported"] = [k[0] for k in self.known]
        os.makedirs(os.path.join(VERIF, "evidence"), exist_ok=True)
        # (runs against a deliberately broken tree, bin/tryseed and bin/seedeval, leave the evidence alone)
        evpath = os.devnull if os.environ.get("VERIF_NO_EVIDENCE") else os.path.join(VERIF, "evidence", self.prop + ".json")
        with open(evpath, "w") as f:
            json.dump(ev, f, indent=1, sort_keys=True, default=str)
            f.write("\n")
        for sig, text in self.known:
            print("KNOWN-FINDING: property=%s %s [%s]" % (self.prop, text, sig))
        seen = set()
        for sig, what, witness in self.violations:
            if sig in seen:
                continue
            seen.add(sig)
            os.makedirs(os.path.join(VERIF, "replays"), exist_ok=True)
            h = hashlib.sha1(sig.encode()).hexdigest()[:10]
            rp = os.path.join(VERIF, "replays", "%s-%s.json" % (self.prop, h))
            with open(rp, "w") as f:
                json.dump({"property": self.prop, "signature": sig, "what": what, "seed": self.seed,
                           "tier": self.tier, "witness": witness}, f, indent=1, default=str)
            print("VIOLATION property=%s replay=%s" % (self.prop, rp))
            print("  signature: %s\n  what: %s" % (sig, what))
        return 1 if self.violations else 0

    def cleanup(self):
        if os.environ.get("VERIF_KEEP"):
            print("scratch kept:", self.scratch)
            return
        shutil.rmtree(self.scratch, ignore_errors=True)


def sig_match(pattern, sig):
    """Known-finding signatures may end in '*' (prefix match)."""
    if pattern.endswith("*"):
        return sig.startswith(pattern[:-1])
    return pattern == sig


def load_known_findings():
    res = []
    p = os.path.join(VERIF, "KNOWN_FINDINGS.txt")
    if not os.path.exists(p):
        return res
    for line in open(p):
        line = line.strip()
        if not line or line.startswith("#"):
            continue
        m = re.match(r"^finding: property=(\S+) signature=(\S+) (.*)$", line)
        if m:
            res.append({"kind": "finding", "property": m.group(1), "signature": m.group(2), "text": m.group(3)})
            continue
        m = re.match(r"^fixed: property=(\S+) (\S+) (.*)$", line)
        if m:
            res.append({"kind": "fixed", "property": m.group(1), "commit": m.group(2), "text": m.group(3)})
    return res
