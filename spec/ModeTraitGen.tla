---------------------------- MODULE ModeTraitGen ----------------------------
(***************************************************************************)
(* Gen use of ModeTrait.tla: either the default modes (NewModel) or a     *)
(* random mode list handed to NewModelModes (1..3 modes, 1..5 values each *)
(* in random order), then 10..MaxOps UpdateModeValues requests mixing     *)
(* relative steps (-7..7, also of unknown modes) with written values.     *)
(* keep = the client also writes back the current values of the modes it  *)
(* does not mention (read-modify-write), so that the walk keeps a value   *)
(* for every mode.                                                        *)
(***************************************************************************)
EXTENDS ModeTrait, TLC, Json

CONSTANTS NCases, MaxOps
VARIABLE c

R(S) == RandomElement(S)
Flip(z, pct) == RandomElement(1..100) <= pct
Pick(z, seq) == seq[RandomElement(1..Len(seq))]

ModePool == <<"fan", "spin", "temperature">>
ValuePool == <<"auto", "eco", "high", "low", "off">>
Reverse(s) == [k \in 1..Len(s) |-> s[Len(s) + 1 - k]]
Rotate(s, r) == [k \in 1..Len(s) |-> s[((k - 1 + r) % Len(s)) + 1]]
RandValues(z) ==
  LET keep == <<Flip(z, 55), Flip(z, 55), Flip(z, 55), Flip(z, 55), Flip(z, 55)>>
      idx == SelectSeq(<<1, 2, 3, 4, 5>>, LAMBDA j : keep[j])
      idx2 == IF idx = <<>> THEN <<R(1..5)>> ELSE idx
      vs == [j \in 1..Len(idx2) |-> ValuePool[idx2[j]]]
      rot == Rotate(vs, R(0..4))
  IN IF Flip(z, 50) THEN Reverse(rot) ELSE rot
RandModes(z) ==
  LET keep == <<Flip(z, 60), Flip(z, 60), Flip(z, 60)>>
      idx == SelectSeq(<<1, 2, 3>>, LAMBDA j : keep[j])
      idx2 == IF idx = <<>> THEN <<R(1..3)>> ELSE idx
  IN SelectSeq([j \in 1..Len(idx2) |-> [name |-> ModePool[idx2[j]], values |-> SelectSeq(RandValues(z), LAMBDA x : TRUE)]], LAMBDA x : TRUE)

Op(z, ms) ==
  LET relAll == [j \in 1..Len(ms) |-> [mode |-> ms[j].name, adj |-> R(-7..7), keep |-> Flip(z, 55)]]
      rel0 == SelectSeq(relAll, LAMBDA x : x.keep)
      rel1 == [j \in 1..Len(rel0) |-> [mode |-> rel0[j].mode, adj |-> rel0[j].adj]]
      rel == IF Flip(z, 6) THEN rel1 \o <<[mode |-> "nosuch", adj |-> R(-2..2)]>> ELSE rel1
      absAll == [j \in 1..Len(ms) |-> [mode |-> ms[j].name,
                                      value |-> IF Flip(z, 10) THEN "bogus" ELSE Pick(z, ms[j].values), keep |-> Flip(z, 25)]]
      abs0 == SelectSeq(absAll, LAMBDA x : x.keep)
  IN [op |-> "Update", keep |-> Flip(z, 75), rel |-> rel,
      abs |-> [j \in 1..Len(abs0) |-> [mode |-> abs0[j].mode, value |-> abs0[j].value]]]

Prog(k) ==
  LET custom == Flip(k, 65)
      ms == IF custom THEN RandModes(k) ELSE DefaultModes
  IN [model |-> "mode", n |-> k, cfg |-> [custom |-> custom, modes |-> ms],
      ops |-> [j \in 1..R(10..MaxOps) |-> Op(k, ms)]]

GenInit == c \in { Prog(k) : k \in 1..NCases }
GenNext == UNCHANGED c
EmitCase == PrintT("CASE " \o ToJson(c))
=============================================================================
