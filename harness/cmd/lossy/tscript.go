// Timed replays of spec/SendTimeout.tla: Value.Set towards a backpressured subscriber whose consumer receives
// where the behaviour says so; one Tick of the specification is one second of real time (the send timeout of
// Value.Set is five of them).  All behaviours run side by side, they mostly sleep.
package main

import (
	"bytes"
	"context"
	"encoding/json"
	"os"
	"runtime"
	"strconv"
	"sync"
	"sync/atomic"
	"time"

	"github.com/smart-core-os/sc-golang/internal/testproto"
	"github.com/smart-core-os/sc-golang/pkg/resource"
	"github.com/smart-core-os/sc-golang/verifharness/hx"
)

type tstep struct {
	A string `json:"a"`
	P int    `json:"p"`
}
type tcase struct {
	N      int             `json:"n"`
	Nw     int             `json:"nw"`
	Limit  int             `json:"limit"`
	Sched  []tstep         `json:"sched"`
	Expect json.RawMessage `json:"expect"`
	// OnlookerFirst: the onlooker without backpressure registers before the subscriber under test
	OnlookerFirst bool `json:"onlookerFirst"`
}
type wobs struct {
	Began   bool   `json:"began"`
	Res     string `json:"res"` // "none" (never began) | "OK" | "error" | "hung"
	StartMs int    `json:"startMs"`
	PubMs   int    `json:"pubMs"` // when the send began (pub.before), -1 if it never did
	EndMs   int    `json:"endMs"`

	mu   sync.Mutex
	done chan struct{}
}
type tobs struct {
	N         int             `json:"n"`
	Nw        int             `json:"nw"`
	Limit     int             `json:"limit"`
	TickMs    int             `json:"tickMs"`
	Sched     []tstep         `json:"sched"`
	Expect    json.RawMessage `json:"expect"`
	Writers   []*wobs         `json:"writers"`
	Got       []int           `json:"got"`     // what the consumer received at the Recv steps (-1: nothing to receive)
	Drained   []int           `json:"drained"` // what it received when it was asked once more at the end
	LossyLast int             `json:"lossyLast"`
	Final     int             `json:"final"` // Get() at the end
	Problem   string          `json:"problem"`
}

func tgoid() int64 {
	var buf [64]byte
	n := runtime.Stack(buf[:], false)
	f := bytes.Fields(buf[:n])
	id, _ := strconv.ParseInt(string(f[1]), 10, 64)
	return id
}

type wreg struct {
	w  *wobs
	t0 time.Time
}

var writersByGo sync.Map // goroutine id -> wreg

func thook(point string, _ any, _ ...any) {
	if point != "pub.before" {
		return
	}
	if r, ok := writersByGo.Load(tgoid()); ok {
		reg := r.(wreg)
		reg.w.mu.Lock()
		reg.w.PubMs = int(time.Since(reg.t0) / time.Millisecond)
		reg.w.mu.Unlock()
	}
}

func runTScript(c tcase, tick time.Duration) *tobs {
	o := &tobs{N: c.N, Nw: c.Nw, Limit: c.Limit, TickMs: int(tick / time.Millisecond), Sched: c.Sched, Expect: c.Expect,
		Got: []int{}, Drained: []int{}}
	for i := 0; i < c.Nw; i++ {
		o.Writers = append(o.Writers, &wobs{Res: "none", StartMs: -1, PubMs: -1, EndMs: -1, done: make(chan struct{})})
	}
	v := resource.NewValue(resource.WithInitialValue(&testproto.TestAllTypes{DefaultInt32: 100}))
	ctx, cancel := context.WithCancel(context.Background())
	defer cancel()
	// an onlooker without backpressure that keeps receiving: it ends up with the latest value, whether it
	// registered before or after the subscriber under test
	lctx, lcancel := context.WithCancel(context.Background())
	defer lcancel()
	var lossyLast int64 = 100
	var ch, lch <-chan *resource.ValueChange
	if c.OnlookerFirst {
		lch = v.Pull(lctx, resource.WithBackpressure(false))
		ch = v.Pull(ctx, resource.WithBackpressure(true), resource.WithUpdatesOnly(true))
	} else {
		ch = v.Pull(ctx, resource.WithBackpressure(true), resource.WithUpdatesOnly(true))
		lch = v.Pull(lctx, resource.WithBackpressure(false))
	}
	go func() {
		for e := range lch {
			atomic.StoreInt64(&lossyLast, int64(val(e.Value)))
		}
	}()
	recv := func(d time.Duration) int {
		select {
		case e, ok := <-ch:
			if !ok {
				return -2
			}
			return val(e.Value)
		case <-time.After(d):
			return -1
		}
	}
	t0 := time.Now()
	now := 0
	for _, st := range c.Sched {
		switch st.A {
		case "Tick":
			now++
			time.Sleep(time.Until(t0.Add(time.Duration(now) * tick)))
			continue
		case "Begin":
			w := o.Writers[st.P-1]
			w.Began = true
			w.StartMs = int(time.Since(t0) / time.Millisecond)
			go func(p int) {
				writersByGo.Store(tgoid(), wreg{w: w, t0: t0})
				defer writersByGo.Delete(tgoid())
				_, err := v.Set(&testproto.TestAllTypes{DefaultInt32: int32(p)})
				w.mu.Lock()
				w.EndMs = int(time.Since(t0) / time.Millisecond)
				if err == nil {
					w.Res = "OK"
				} else {
					w.Res = "error"
				}
				w.mu.Unlock()
				close(w.done)
			}(st.P)
		case "TakeSer", "Hand", "Skip":
			// the code does these on its own accord
			time.Sleep(10 * time.Millisecond)
			continue
		case "Timeout":
			select {
			case <-o.Writers[st.P-1].done:
			case <-time.After(tick*3/2 + 500*time.Millisecond):
			}
		case "Recv":
			o.Got = append(o.Got, recv(tick/2))
		case "CancelReader":
			cancel()
		default:
			o.Problem = "unknown action " + st.A
			return o
		}
		time.Sleep(30 * time.Millisecond)
	}
	// every writer has returned by now in the specification's behaviour
	deadline := time.After(time.Duration(c.Limit+2) * tick)
	for _, w := range o.Writers {
		if !w.Began {
			continue
		}
		select {
		case <-w.done:
		case <-deadline:
			w.mu.Lock()
			if w.Res == "none" {
				w.Res = "hung"
			}
			w.mu.Unlock()
			deadline = time.After(time.Millisecond)
		}
	}
	if ctx.Err() == nil {
		if x := recv(300 * time.Millisecond); x >= 0 {
			o.Drained = append(o.Drained, x)
		}
	}
	time.Sleep(100 * time.Millisecond)
	o.LossyLast = int(atomic.LoadInt64(&lossyLast))
	got := make(chan int, 1)
	go func() { got <- val(v.Get()) }()
	select {
	case o.Final = <-got:
	case <-time.After(2 * time.Second):
		o.Final = -1
	}
	for _, w := range o.Writers {
		w.mu.Lock()
	}
	return o
}

func runTScripts(path, outPath string) {
	resource.VerifHook = thook
	tick := time.Second
	if s := os.Getenv("VERIF_TICK_MS"); s != "" {
		if ms, err := strconv.Atoi(s); err == nil && ms > 0 {
			tick = time.Duration(ms) * time.Millisecond
		}
	}
	cases := hx.ReadCases[tcase](path)
	out := hx.NewOut(outPath)
	defer out.Close()
	res := make([]*tobs, len(cases))
	var wg sync.WaitGroup
	for i, c := range cases {
		i, c := i, c
		wg.Add(1)
		go func() {
			defer wg.Done()
			res[i] = runTScript(c, tick)
		}()
		time.Sleep(3 * time.Millisecond) // not all on the very same instant
	}
	wg.Wait()
	for _, o := range res {
		out.Write(o)
	}
}
