---------------------------- MODULE PublicationGen ----------------------------
(***************************************************************************)
(* Gen use of Publication.tla: initial publications (any subset of three  *)
(* ids, with or without audience, some already acknowledged, each with a  *)
(* configured version "init-<k>"), then 10..MaxOps RPCs: Create, Update   *)
(* (whole message or one of three update masks; current, stale or no      *)
(* version), Acknowledge (current or stale version, accepted or rejected, *)
(* with and without allow_acknowledged), Delete.  "current" is resolved   *)
(* by the harness to the version string the model holds at that moment.   *)
(* Some calls are overtaken by another client's call at the instant they  *)
(* read the (stepped) clock.                                              *)
(* The strings are chosen so that the concatenation hashed by the server  *)
(* is unambiguous (no value is a prefix or suffix of another field's).    *)
(***************************************************************************)
EXTENDS Publication, TLC, Json

CONSTANTS NCases, MaxOps
VARIABLE c

R(S) == RandomElement(S)
Flip(z, pct) == RandomElement(1..100) <= pct
Pick(z, seq) == seq[RandomElement(1..Len(seq))]

Bodies == {"", "hello", "world"}
MTs == {"", "text/plain", "text/html"}
WAud(z) == IF Flip(z, 65) THEN [has |-> TRUE, name |-> Pick(z, <<"alice", "alice", "bob", "">>)] ELSE [has |-> FALSE, name |-> ""]

BaseOp(z) ==
  LET op == Pick(z, <<"Create", "Create", "Update", "Update", "Update", "Update", "Ack", "Ack", "Ack", "Ack", "Ack", "Delete">>)
      mask == IF op = "Update" THEN Pick(z, <<"none", "none", "body", "body+media_type", "audience.name">>) ELSE "none"
      aud == IF mask = "audience.name" THEN [has |-> TRUE, name |-> Pick(z, <<"alice", "bob", "carol">>)] ELSE WAud(z)
  IN [op |-> op, dt |-> Pick(z, <<0, 1, 1, 2>>), id |-> R(Ids), body |-> R(Bodies), mt |-> R(MTs), aud |-> aud, mask |-> mask,
      ver |-> IF op = "Ack" THEN Pick(z, <<"current", "current", "current", "current", "stale">>)
              ELSE IF op = "Create" THEN "none" ELSE Pick(z, <<"none", "none", "current", "current", "stale">>),
      receipt |-> Pick(z, <<"ACCEPTED", "REJECTED">>), reason |-> Pick(z, <<"", "busy">>),
      allow |-> Flip(z, 30), allowMissing |-> Flip(z, 40)]

\* a step: call a; with conc, a is held by the stepped harness clock right after it has taken its instant (publish
\* time / receipt time) and call b of another client (mostly on the same publication, >= 1 tick later) runs in between
Step(z) ==
  LET a == BaseOp(z)
  IN [a |-> a, conc |-> a.op # "Delete" /\ Flip(z, 18),
      b |-> [BaseOp(z) EXCEPT !.id = IF Flip(z, 80) THEN a.id ELSE @, !.dt = Pick(z, <<1, 1, 2>>)]]

InitPub(z, k) ==
  LET hasAud == Flip(z, 70)
      acked == hasAud /\ Flip(z, 30)
  IN [id |-> IdOrder[k], body |-> R(Bodies), mt |-> R(MTs),
      aud |-> IF ~hasAud THEN NoAud
              ELSE IF acked THEN [has |-> TRUE, name |-> "alice", receipt |-> "ACCEPTED", reason |-> "", rtime |-> At(R(0..9))]
              ELSE FreshAud(Pick(z, <<"alice", "bob">>)),
      ver |-> Foreign(k), pt |-> IF Flip(z, 50) THEN At(0) ELSE NoTime]

\* a random permutation of a sequence
RECURSIVE Shuffle(_, _)
Shuffle(z, s) == IF s = <<>> THEN <<>>
                 ELSE LET i == RandomElement(1..Len(s))
                      IN <<s[i]>> \o Shuffle(z, [j \in 1..(Len(s) - 1) |-> IF j < i THEN s[j] ELSE s[j + 1]])
\* the items of one kind spread over options: all in one, one each, or split in two
Groups(z, items) ==
  IF items = <<>> THEN <<>>
  ELSE LET how == Pick(z, <<"one", "each", "split">>)
           i == RandomElement(1..Len(items))
       IN IF how = "one" \/ (how = "split" /\ i = Len(items)) THEN <<items>>
          ELSE IF how = "each" THEN [j \in 1..Len(items) |-> <<items[j]>>]
          ELSE <<SubSeq(items, 1, i), SubSeq(items, i + 1, Len(items))>>

Prog(k) ==
  LET keep == <<Flip(k, 70), Flip(k, 70), Flip(k, 70)>>
      idx == SelectSeq(<<1, 2, 3>>, LAMBDA j : keep[j])
      gs == Groups(k, SelectSeq([j \in 1..Len(idx) |-> InitPub(k, idx[j])], LAMBDA x : TRUE))
      none == [kind |-> "clock", pubs |-> <<>>, via |-> "model"]
      \* the initial publications spread over several options and the clock option, in a random order
      opts == Shuffle(k, [j \in 1..Len(gs) |-> [none EXCEPT !.kind = "pubs", !.pubs = gs[j], !.via = Pick(k, <<"model", "model", "resource">>)]]
                         \o <<none>>)
  IN [model |-> "publication", n |-> k,
      cfg |-> [opts |-> opts, init |-> ConfPubs(opts)],
      ops |-> [j \in 1..R(10..MaxOps) |-> Step(k)]]

GenInit == c \in { Prog(k) : k \in 1..NCases }
GenNext == UNCHANGED c
EmitCase == PrintT("CASE " \o ToJson(c))
=============================================================================
