---------------------------- MODULE SendTimeoutTrace ----------------------------
(***************************************************************************)
(* Trace use of SendTimeout.tla.  One line of obs.ndjson = one behaviour   *)
(* of the specification replayed in real time on a real Value (one Tick =  *)
(* tickMs milliseconds): per writer what Set returned, when it was called, *)
(* when its send began (pub.before hook) and when it returned; what the    *)
(* consumer received.  The invariants of SendTimeout.tla are evaluated on  *)
(* the measured times, and the outcome is compared with the behaviour's.   *)
(***************************************************************************)
EXTENDS Integers, Sequences, FiniteSets, TLC, Json
VARIABLE c
Obs == ndJsonDeserialize("obs.ndjson")
If(b, name) == IF b THEN {} ELSE {name}
None == 0

WriterFails(t, w) ==
  LET o == t.writers[w]  want == t.expect.res[w]  lim == t.limit * t.tickMs IN
  \* NoHang
  If(o.res # "hung", "C09:value-write-hangs")
  \cup (IF o.res = "hung" THEN {} ELSE
        If(o.res = want, IF want = "OK" THEN "C09:write-failed-though-its-event-was-taken-within-its-timeout"
                         ELSE "C09:value-write-reported-success-without-delivery")
        \* ErrorOnlyAfterOwnLimit: the error comes Limit after the write's own send began
        \cup If(o.res # "error" \/ (o.pubMs >= 0 /\ o.endMs - o.pubMs >= lim - 300 /\ o.endMs - o.pubMs <= lim + 1500),
                "C09:send-timeout-not-five-seconds-after-the-send-began")
        \* a write whose event was taken returns then, not later
        \cup If(o.res # "OK" \/ want # "OK" \/ o.endMs <= (t.expect.endAt[w] + 1) * t.tickMs,
                "C09:write-still-blocked-after-delivery"))

Fails(t) ==
  IF t.problem # "" THEN {} ELSE
  UNION { WriterFails(t, w) : w \in { w \in 1..t.nw : t.writers[w].began } }
  \* NothingDropped: the consumer got the successfully written values, in commit order
  \cup (IF \E w \in 1..t.nw : t.writers[w].began /\ t.writers[w].res # t.expect.res[w] THEN {}
        ELSE If(~t.expect.readerLive
                \/ t.got \o t.drained = t.expect.got \o (IF t.expect.held = None THEN <<>> ELSE <<t.expect.held>>),
                "C09:backpressured-change-dropped-or-reordered")
             \cup If(t.final = t.expect.final, "C09:final-value")
             \* without backpressure, however the other subscriber behaves, the latest value arrives
             \cup If(t.lossyLast = t.expect.final, "C09:lossy-subscriber-missed-latest-value"))

BadLines == { k \in 1..Len(Obs) : Fails(Obs[k]) # {} }
TraceInit == c = 0
TraceNext == UNCHANGED c
EmitBad == \A k \in BadLines : PrintT("BAD " \o ToJson([line |-> k, fails |-> Fails(Obs[k])]))
TraceChecked == EmitBad /\ PrintT("CHECKED " \o ToString(Len(Obs)))
=============================================================================
