INIT Init
NEXT Next
INVARIANT TypeOK
INVARIANT HandedOutStable
INVARIANT StoreIsolated
PROPERTY ReadOnlyFrame
CONSTANTS
  StoreIn = FALSE
  InPlace = FALSE
  ReadEdits = FALSE
  FirstWriteKeeps = TRUE
  HookEditsOld = FALSE
  LendsOld = FALSE
  MergeFiltersSrc = FALSE
  InitKinds = {"present"}
  NCases = 0
  MinOps = 1
  MaxOps = 1
  MaxLive = 200
