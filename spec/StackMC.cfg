SPECIFICATION Spec
INVARIANTS RelationsHold MutantsCaught
VIEW View
