------------------------- MODULE TimelineTrace -------------------------
(***************************************************************************)
(* C18, the verdict: every line of obs.ndjson is what the real pkg/time,   *)
(* segmentpb and modepb functions returned for one case of Timeline.tla    *)
(* (Gen) or for one random 64-bit timestamp triple made by the harness.    *)
(* Fails(t) is the set of property clauses the line falsifies.  Results    *)
(* that are segment lists / modes are never compared as lists: the step    *)
(* function they denote (Mag / AbsMag of Timeline.tla) is compared at      *)
(* every tick of a window that covers all breakpoints of inputs and        *)
(* outputs, so any equivalent segmentation is accepted.                    *)
(*                                                                         *)
(* One TLC state per line (two fan-out stages so the workers share them).  *)
(***************************************************************************)
EXTENDS Timeline

Obs == ndJsonDeserialize("obs.ndjson")
NObs == Len(Obs)
Groups == 64

Abs(x) == IF x < 0 THEN -x ELSE x
Sign(x) == IF x < 0 THEN -1 ELSE IF x > 0 THEN 1 ELSE 0
Unit(x) == x \in {-1, 0, 1}
If(b, name) == IF b THEN {name} ELSE {}

\* an output list the sampling can cope with (also: no negative lengths)
Sane(l) == (\A i \in DOMAIN l : l[i].len >= 0 /\ l[i].len <= 2000) /\ Horizon(l) <= 2000
SaneMode(m) == Sane(m.segs) /\ Abs(m.st) <= 5000

----------------------------------------------------------------------------
(* periods.  Asserted only for two well-formed periods (start < end when   *)
(* both are bounded): the property speaks of "two half-open intervals";    *)
(* for empty or inverted periods the doc comment of PeriodsIntersect and   *)
(* its code disagree, and the property text does not settle it.            *)
PerFails(t) ==
  LET p == t.p  q == t.q IN
  If(t.mut # <<>>, "argument-mutated")
  \cup (IF WellFormed(p) /\ WellFormed(q) THEN
          If(t.ipq # Overlap(p, q) \/ t.iqp # Overlap(q, p), "intersect-differs-from-overlap")
          \cup If(t.ipq # t.iqp, "intersect-asymmetric")
          \cup If(t.cpq # OverlapOrTouch(p, q) \/ t.cqp # OverlapOrTouch(q, p), "connected-differs-from-overlap-or-touch")
          \cup If(t.cpq # t.cqp, "connected-asymmetric")
        ELSE {})

(* timestamp comparison on the small domain                                *)
CmpFails(t) ==
  If(t.mut # <<>>, "argument-mutated")
  \cup If(~Unit(t.rab) \/ ~Unit(t.rba), "result-not-in-minus1-0-1")
  \cup If(Sign(t.rab) # Cmp(t.a, t.b) \/ Sign(t.rba) # Cmp(t.b, t.a), "not-chronological")

(* random 64-bit-range timestamps: key = <<limb2, limb1, limb0, nanos>>,    *)
(* ordered lexicographically (each component < 2^30)                       *)
Key(x) == <<x.l[1], x.l[2], x.l[3], x.n>>
RECURSIVE LexCmp(_, _, _)
LexCmp(x, y, i) == IF i > Len(x) THEN 0
                   ELSE IF x[i] < y[i] THEN -1 ELSE IF x[i] > y[i] THEN 1 ELSE LexCmp(x, y, i + 1)
Cmp64Fails(t) ==
  LET a == Key(t.a)  b == Key(t.b)  d == Key(t.c) IN
  If(~Unit(t.rab) \/ ~Unit(t.rba) \/ ~Unit(t.rbc) \/ ~Unit(t.rac), "result-not-in-minus1-0-1")
  \cup If(\/ Sign(t.rab) # LexCmp(a, b, 1) \/ Sign(t.rba) # LexCmp(b, a, 1)
          \/ Sign(t.rbc) # LexCmp(b, d, 1) \/ Sign(t.rac) # LexCmp(a, d, 1), "not-chronological")
  \cup If(Sign(t.rab) # -Sign(t.rba), "not-antisymmetric")
  \cup If(\/ (Sign(t.rab) <= 0 /\ Sign(t.rbc) <= 0 /\ Sign(t.rac) > 0)
          \/ (Sign(t.rab) >= 0 /\ Sign(t.rbc) >= 0 /\ Sign(t.rac) < 0), "not-transitive")

----------------------------------------------------------------------------
(* segment lists                                                           *)
\* ActiveAt against the documented result.  For the empty list and d < 0 the
\* doc comment says both "(0,0)" and "(d,0)": only the index is asserted there.
ActiveOk(r, l, d) == LET x == ActiveAtRef(l, d) IN
                       r.idx = x.idx /\ (r.el = x.el \/ (l = <<>> /\ d < 0))
MagOk(r, l, d) == r.m = Mag(l, d) /\ r.ok = Active(l, d)

ShiftOk(g, l, d) == Sane(g) /\ IsShiftOf(g, l, d, (-3)..(Max2(Horizon(g), Horizon(l) + Abs(d)) + 3))

ListFails(t) ==
  LET l == t.l  n == Len(t.ds) IN
  If(t.mut # <<>>, "argument-mutated")
  \cup If(~t.exact, "inexact-output")
  \cup If(\E i \in 1..n : ~ActiveOk(t.act[i], l, t.ds[i]), "active-at")
  \cup If(\E i \in 1..n : ~MagOk(t.mag[i], l, t.ds[i]), "magnitude-at")
  \cup If(\E i \in 1..n : ~IsArgMax(l, OccupyingFrom(l, t.ds[i]), t.maxafter[i]), "max-after")
  \cup If(t.dur.total # Total(l) \/ t.dur.inf # Infinite(l), "duration")
  \cup If(~IsArgMax(l, Occupying(l), t.max), "max")
  \cup If(t.maxmag # MaxMagRef(l), "max-magnitude")
  \cup If(\E i \in 1..n : t.ds[i] > 0 /\ ~ShiftOk(t.sh[i], l, t.ds[i]), "shift-later")
  \cup If(\E i \in 1..n : t.ds[i] < 0 /\ ~ShiftOk(t.sh[i], l, t.ds[i]), "shift-earlier")
  \cup If(\E i \in 1..n : t.ds[i] = 0 /\ ~ShiftOk(t.sh[i], l, t.ds[i]), "shift-zero")

\* Cut of one segment: before is the segment before d, after is the rest re-based
\* to 0.  The "outside" result of segmentpb.Cut is not part of the property: not asserted.
CutOk(r, s, d) == Sane(r.b) /\ Sane(r.a)
                  /\ IsCutOf(r.b, r.a, <<s>>, d, (-3)..(Horizon(<<s>>) + Horizon(r.b) + Horizon(r.a) + Abs(d) + 3))
CutFails(t) ==
  If(t.mut # <<>>, "argument-mutated")
  \cup If(~t.exact, "inexact-output")
  \cup If(\E i \in 1..Len(t.ds) : ~CutOk(t.res[i], t.sg, t.ds[i]), "cut")

RECURSIVE MaxHorizon(_)
MaxHorizon(ls) == IF ls = <<>> THEN 0 ELSE Max2(Horizon(Head(ls)), MaxHorizon(Tail(ls)))
SumFails(t) ==
  If(t.mut # <<>>, "argument-mutated")
  \cup If(~t.exact, "inexact-output")
  \cup If(~(Sane(t.out) /\ IsSumOf(t.out, t.ls, (-3)..(Max2(Horizon(t.out), MaxHorizon(t.ls)) + 3))), "sum")

----------------------------------------------------------------------------
(* modes: absolute ticks; a mode without start time is read relative to    *)
(* the instant asked about (active-at, magnitude-at, cut) as the doc        *)
(* comments of modepb say                                                  *)
ModeEnd(m, ref) == StartOf(m, ref) + Horizon(m.segs)
ModeCutOk(r, m, T) ==
  /\ SaneMode(r.b) /\ SaneMode(r.a)
  /\ LET lo == Min2(Min2(StartOf(m, T), StartOf(r.b, T)), Min2(StartOf(r.a, T), T)) - 3
         hi == Max2(Max2(ModeEnd(m, T), ModeEnd(r.b, T)), Max2(ModeEnd(r.a, T), T)) + 3
     IN IsModeCutOf(r.b, r.a, m, T, lo..hi)
ModeShiftOk(g, m, d) ==
  /\ ~g.nil /\ SaneMode(g)
  /\ LET lo == Min2(StartOf(m, 0), StartOf(g, 0)) - Abs(d) - 3
         hi == Max2(ModeEnd(m, 0), ModeEnd(g, 0)) + Abs(d) + 3
     IN IsModeShiftOf(g, m, d, lo..hi)

ModeFails(t) ==
  LET m == t.m  l == t.m.segs  n == Len(t.ts)
      D(i) == t.ts[i] - StartOf(m, t.ts[i]) IN
  If(t.mut # <<>>, "argument-mutated")
  \cup If(~t.exact, "inexact-output")
  \cup If(\E i \in 1..n : ~ActiveOk(t.act[i], l, D(i)), "mode-active-at")
  \cup If(\E i \in 1..n : ~MagOk(t.mag[i], l, D(i)), "mode-magnitude-at")
  \cup If(\E i \in 1..n : ~IsArgMax(l, OccupyingFrom(l, D(i)), t.maxafter[i]), "mode-max-after")
  \* the "outside" result of modepb.Cut is not part of the property: not asserted
  \cup If(\E i \in 1..n : ~ModeCutOk(t.cuts[i], m, t.ts[i]), "mode-cut")
  \cup If(\E i \in 1..Len(t.ds) : ~ModeShiftOk(t.sh[i], m, t.ds[i]), "mode-shift")

RECURSIVE MaxModeEnd(_, _)
MaxModeEnd(ms, ref) == IF ms = <<>> THEN ref ELSE Max2(ModeEnd(Head(ms), ref), MaxModeEnd(Tail(ms), ref))
MSumFails(t) ==
  LET ms == t.ms  S == Starts(ms)
      ref == IF S = {} THEN 0 ELSE SetMax(S)           \* "assumed to start at the most recent start time"
      lo == (IF S = {} THEN 0 ELSE SetMin(S)) - 3 IN
  If(t.mut # <<>>, "argument-mutated")
  \cup If(~t.exact, "inexact-output")
  \cup (IF t.out.nil \/ ~SaneMode(t.out) THEN {"mode-sum"}
        ELSE If(~IsModeSumOf(t.out, ms, ref, Min2(lo, StartOf(t.out, ref) - 3)..(Max2(MaxModeEnd(ms, ref), ModeEnd(t.out, ref)) + 3)), "mode-sum")
             \* an absolute sum needs a start time to be read as a function of absolute time
             \cup If(t.out.has # (S # {}), "mode-sum-start-time"))

----------------------------------------------------------------------------
Fails(t) ==
  IF t.panic # "" THEN {"panic"}
  ELSE CASE t.k = "per"   -> PerFails(t)
         [] t.k = "cmp"   -> CmpFails(t)
         [] t.k = "cmp64" -> Cmp64Fails(t)
         [] t.k = "list"  -> ListFails(t)
         [] t.k = "cut"   -> CutFails(t)
         [] t.k = "sum"   -> SumFails(t)
         [] t.k = "mode"  -> ModeFails(t)
         [] t.k = "msum"  -> MSumFails(t)

\* c = 0: root; c = -g: group g; c = k > 0: line k
TraceInit == c = 0
TraceNext == \/ c = 0 /\ c' \in {-g : g \in 1..Groups}
             \/ c < 0 /\ c' \in {-c + Groups * j : j \in 0..((NObs + c) \div Groups)} /\ c' <= NObs
TraceChecked ==
  c > 0 => LET f == Fails(Obs[c]) IN f # {} => PrintT("BAD " \o ToJson([line |-> c, fails |-> f]))
=============================================================================
