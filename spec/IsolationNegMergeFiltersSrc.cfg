INIT Init
NEXT Next
INVARIANT HandedOutStable
CONSTANTS
  StoreIn = FALSE
  InPlace = FALSE
  ReadEdits = FALSE
  FirstWriteKeeps = FALSE
  HookEditsOld = FALSE
  LendsOld = FALSE
  MergeFiltersSrc = TRUE
  InitKinds = {"absent", "present"}
  NCases = 0
  MinOps = 1
  MaxOps = 1
  MaxLive = 200
