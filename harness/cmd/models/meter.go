package main

import (
	"encoding/json"
	"math"
	"sync"
	"time"

	"google.golang.org/protobuf/types/known/timestamppb"

	"github.com/smart-core-os/sc-api/go/traits"
	"github.com/smart-core-os/sc-golang/pkg/resource"
	"github.com/smart-core-os/sc-golang/pkg/trait/meterpb"
	"github.com/smart-core-os/sc-golang/verifharness/hx"
)

// ---- abstract time shared by Meter.tla and Publication.tla: whole ticks of a scripted clock ----

var tickEpoch = time.Unix(1_700_000_000, 0)

type tickClock struct {
	mu  sync.Mutex
	now int
}

func (c *tickClock) Now() time.Time {
	c.mu.Lock()
	defer c.mu.Unlock()
	return concTick(c.now)
}
func (c *tickClock) advance(dt int) int {
	c.mu.Lock()
	defer c.mu.Unlock()
	c.now += dt
	return c.now
}
func concTick(t int) time.Time { return tickEpoch.Add(time.Duration(t) * time.Second) }

type optTime struct {
	Has bool `json:"has"`
	V   int  `json:"v"`
}

func optTimeOf(ts *timestamppb.Timestamp) optTime {
	if ts == nil {
		return optTime{}
	}
	d := ts.AsTime().Sub(tickEpoch)
	if d%time.Second != 0 || d < -1000*time.Second || d > 100000*time.Second {
		return optTime{Has: true, V: -7777} // not a time of the scripted clock
	}
	return optTime{Has: true, V: int(d / time.Second)}
}
func concOptTime(o optTime) *timestamppb.Timestamp {
	if !o.Has {
		return nil
	}
	return timestamppb.New(concTick(o.V))
}

// ---- Meter.tla --------------------------------------------------------------

type absReading struct {
	Usage int     `json:"usage"`
	Start optTime `json:"start"`
	End   optTime `json:"end"`
}

func absReadingOf(r *traits.MeterReading) absReading {
	u := float64(r.GetUsage())
	usage := -7777
	if u == math.Trunc(u) && math.Abs(u) < 1e6 {
		usage = int(u)
	}
	return absReading{Usage: usage, Start: optTimeOf(r.GetStartTime()), End: optTimeOf(r.GetEndTime())}
}

type meterOp struct {
	Op string `json:"op"`
	Dt int    `json:"dt"`
	V  int    `json:"v"`
}
type meterWalk struct {
	N   int `json:"n"`
	Cfg struct {
		HasInit bool       `json:"hasInit"`
		Init    absReading `json:"init"`
	} `json:"cfg"`
	Ops []meterOp `json:"ops"`
}
type meterObs struct {
	Model   string     `json:"model"`
	Walk    int        `json:"walk"`
	Step    int        `json:"step"`
	Op      string     `json:"op"`
	HasInit bool       `json:"hasInit"`
	Now     int        `json:"now"`
	V       int        `json:"v"`
	Pre     absReading `json:"pre"`
	Post    absReading `json:"post"`
	Ret     absReading `json:"ret"`
	Err     string     `json:"err"`
	Panic   string     `json:"panic"`
}

func init() { register("meter", runMeter) }

func meterRead(m *meterpb.Model) absReading {
	r, _ := m.GetMeterReading()
	return absReadingOf(r)
}

func runMeter(raw json.RawMessage, out *hx.Out) {
	w := decode[meterWalk](raw)
	clk := &tickClock{now: 10}
	var m *meterpb.Model
	o := meterObs{Model: "meter", Walk: w.N, Op: "New", HasInit: w.Cfg.HasInit, Now: 10, Pre: w.Cfg.Init, Err: "OK"}
	o.Panic = hx.Catch(func() {
		opts := []resource.Option{resource.WithClock(clk)}
		if w.Cfg.HasInit {
			opts = append(opts, resource.WithInitialValue(&traits.MeterReading{Usage: float32(w.Cfg.Init.Usage),
				StartTime: concOptTime(w.Cfg.Init.Start), EndTime: concOptTime(w.Cfg.Init.End)}))
		}
		m = meterpb.NewModel(opts...)
		o.Post = meterRead(m)
	})
	o.Ret = o.Post
	out.Write(o)
	if m == nil {
		return
	}
	for i, op := range w.Ops {
		o := meterObs{Model: "meter", Walk: w.N, Step: i + 1, Op: op.Op, HasInit: w.Cfg.HasInit, V: op.V, Err: "OK"}
		o.Now = clk.advance(op.Dt)
		o.Pre = meterRead(m)
		o.Panic = hx.Catch(func() {
			var res *traits.MeterReading
			var err error
			switch op.Op {
			case "Record":
				res, err = m.RecordReading(float32(op.V))
			case "Reset":
				res, err = m.Reset()
			default:
				hx.Fatal("meter: unknown op %q", op.Op)
			}
			o.Err = hx.Code(err)
			if res != nil {
				o.Ret = absReadingOf(res)
			}
		})
		o.Post = meterRead(m)
		out.Write(o)
	}
}
