package main

import (
	"google.golang.org/protobuf/proto"

	"github.com/smart-core-os/sc-golang/verifharness/hx"
)

// cmpCase: a pair of abstract messages and a comparer configuration.
type cmpCase struct {
	N   int `json:"n"`
	X   Msg `json:"x"`
	Y   Msg `json:"y"`
	Cfg Cfg `json:"cfg"`
	Sc  int `json:"sc"`
	Tb  int `json:"tb"`
}

type both struct {
	XY bool `json:"xy"`
	YX bool `json:"yx"`
}

// runCmp evaluates the configured comparer on (x, y), (y, x), (x, x') and (y, y')
// (primed = a second, separately built copy), each component of an And / Or on
// its own, and proto.Equal as the reference for the default comparer.
func runCmp(c cmpCase) map[string]any {
	e := newEmbed(c.Sc, c.Tb)
	var (
		got, pe both
		self    struct {
			X bool `json:"x"`
			Y bool `json:"y"`
		}
		parts   = []both{}
		mutated bool
	)
	panicked := hx.Catch(func() {
		x, y := e.conc(c.X), e.conc(c.Y)
		x2, y2 := e.conc(c.X), e.conc(c.Y)
		pe.XY, pe.YX = proto.Equal(x, y), proto.Equal(y, x)
		whole, ps := e.message(c.Cfg)
		for _, p := range ps {
			parts = append(parts, both{XY: p(x, y), YX: p(y, x)})
		}
		got.XY = whole(x, y)
		got.YX = whole(y, x)
		self.X = whole(x, x2)
		self.Y = whole(y, y2)
		// a comparer must not write to its arguments
		mutated = !sameBytes(x, e.conc(c.X)) || !sameBytes(y, e.conc(c.Y))
	})
	return map[string]any{"got": got, "pe": pe, "self": self, "parts": parts, "mut": mutated, "panic": panicked}
}

// sameBytes compares deterministic encodings (NaN-safe, presence-exact).
func sameBytes(a, b proto.Message) bool {
	if a == nil || b == nil {
		return a == nil && b == nil
	}
	if a.ProtoReflect().IsValid() != b.ProtoReflect().IsValid() {
		return false
	}
	opt := proto.MarshalOptions{Deterministic: true}
	ba, err1 := opt.Marshal(a)
	bb, err2 := opt.Marshal(b)
	return err1 == nil && err2 == nil && string(ba) == string(bb)
}
