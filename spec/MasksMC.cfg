INIT MCInit
NEXT MCNext
INVARIANTS LawWrite LawClasses LawProject
