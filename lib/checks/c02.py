import random

import vf
from checks import conc_common


def stress_cases(ctx, res, n):
    """Free-running programs for the statistical part: 2-4 writers on one id."""
    rnd = random.Random(ctx.seed * 31 + (1 if res == "val" else 2))

    def call(op="upd", id=1, v=1, e=-2, chk=False, xa=False, cia=False, inc=False, am=False):
        return {"op": op, "id": id, "v": v, "e": e, "chk": chk, "xa": xa, "cia": cia, "inc": inc, "am": am}
    pool_val = [call(v=1), call(v=2), call(v=2, e=0), call(v=3, e=1), call(v=1, inc=True), call(v=2, inc=True), call(v=3, chk=True)]
    pool_coll = pool_val + [call(v=1, xa=True, cia=True), call(v=2, xa=True, cia=True), call(v=3, cia=True),
                            call(v=1, inc=True, cia=True), call(op="del"), call(op="del", e=1), call(op="del", am=True)]
    cases = []
    for _ in range(n):
        nw = rnd.choice([2, 2, 3, 4])
        pool = pool_val if res == "val" else pool_coll
        progs = [dict(rnd.choice(pool)) for _ in range(nw)]
        init = [rnd.choice([0, 1, -1])] if res == "val" else [rnd.choice([-1, 1])]
        if init == [-1] and res == "val":      # the first writes of an empty Value
            progs = [dict(rnd.choice([call(v=1, cia=True), call(v=2, cia=True), call(v=1, inc=True, cia=True),
                                      call(v=2, inc=True, cia=True), call(v=3, chk=True, cia=True)])) for _ in range(nw)]
        cases.append({"res": res, "init": init, "progs": progs, "kinds": [], "sched": [], "payload": rnd.choice(["", "", "change"]),
                      "stress": 40 if ctx.tier == "quick" else 400})
    return cases


def run(ctx):
    thorough = ctx.tier == "thorough"
    for cfg in ["ConcMC_val.cfg", "ConcMC_val0.cfg", "ConcMC_coll.cfg"] + (["ConcMC_coll3.cfg"] if thorough else []):
        ctx.mc("ConcMC", cfg, workers=vf.NCPU, timeout=3000)
    cases = conc_common.gen(ctx, "ConcGen_val.cfg", "val")
    cases += conc_common.gen(ctx, "ConcGen_val0.cfg", "val")     # a Value with nothing stored yet
    cases += conc_common.gen(ctx, "ConcGen_coll.cfg", "coll", limit=None if thorough else 6000)
    if thorough:
        cases += conc_common.gen(ctx, "ConcGen_coll3.cfg", "coll", simulate="num=30000", limit=30000, timeout=1800)
    else:
        cases += conc_common.gen(ctx, "ConcGen_coll3.cfg", "coll", simulate="num=1500", limit=1500)
    if len(cases) < 500:
        raise vf.Inconclusive("only %d schedules generated" % len(cases))
    # counterexample schedules of the variant whose create path is not re-validated under the lock
    att = conc_common.attacks(ctx, "ConcGen_coll_pinned.cfg", "coll", "commitValid", 3000 if thorough else 300)
    ctx.cov["attack_schedules"] = len(att)
    if len(att) < 20:
        raise vf.Inconclusive("only %d attack schedules found" % len(att))
    # every third run stores messages shaped like a Pull response's Change (the tracked integer in change_time):
    # the commit-time comparison is plain message equality whatever the payload looks like
    for i, c in enumerate(cases + att):
        c["payload"] = "change" if i % 3 == 0 else ""
    ctx.cov["schedules_generated_by_tlc"] = len(cases) + len(att)
    conc_common.run_and_check(ctx, "C02", cases, "forced")
    conc_common.run_and_check(ctx, "C02", att, "attack")
    st = stress_cases(ctx, "val", 12 if not thorough else 40) + stress_cases(ctx, "coll", 25 if not thorough else 80)
    conc_common.run_and_check(ctx, "C02", st, "stress")
    ctx.cov["rule"] = ("forced: every interleaving TLC finds for 2 writers (Value and Collection programs: set, CAS, "
                       "delta interceptor, expected check, add, upsert, delete with/without precondition) plus "
                       "simulated interleavings of 3 writers, each replayed on the real code by parking goroutines "
                       "at the hook points that end the spec's actions; stress: the same programs free-running with "
                       "2-4 writers; every run is validated by TLC (commit validity at the commit instant, effect "
                       "exactly once, loser codes, final contents). non-trivial = at least two commits or a failed "
                       "call; distinct = distinct (programs, schedule, commit order)")


MANIFEST = {
    "engine": "spec/ResourceConc.tla + ConcMC.tla + ConcTrace.tla (TLC) + harness cmd/conc",
    "technique": "TLA+ model of Value/Collection writes split at their critical sections; TLC checks "
                 "linearizability invariants over all interleavings, its schedules are forced onto the real "
                 "goroutines through hook gates, TLC validates each real run's commit log",
    "text": "ResourceConc.tla models Read/Change/Commit/Publish (and Delete's read/check/lock-compare-remove) as "
            "separate actions under the RWMutex. TLC proves on the model that every commit is valid as a one-at-a-time "
            "call at its instant (CAS, delta interceptors, add, delete preconditions), effects happen exactly once and "
            "losers get the documented codes, for 2-3 writers. Every TLC schedule is then replayed on the real code "
            "(goroutines parked at gau.read, gau.changed, pub.before, send.each, del.read, del.checked) and the commit "
            "order logged under the write lock is validated by TLC with the same predicates; free-running stress runs "
            "are validated the same way. Bounded interleaving coverage, not a proof.",
    "note": "Trusted base: TLC; hook placement (gau.saved/del.removed fire under the write lock, so the logged order is "
            "the commit order); goroutine identification by runtime.Stack; bodies abstracted to default_int32.",
}
