package main

import (
	"crypto/sha1"
	"encoding/hex"
	"fmt"
	"math/rand"
	"reflect"
	"runtime"
	"sort"
	"sync"
	"sync/atomic"
	"time"

	"google.golang.org/protobuf/proto"
	"google.golang.org/protobuf/reflect/protoreflect"

	"github.com/smart-core-os/sc-golang/verifharness/hx"
)

// maxLive is the bound on live handed-out handles (Isolation.tla MaxLive): the oldest are forgotten.
const maxLive = 200

// A handle is one message object that crossed the API boundary, with the deep copy taken at that moment.
type handle struct {
	id        int
	from      string // "<op>.<role>" of the first crossing
	step      int
	m         proto.Message
	frozen    proto.Message
	scribbled bool // the caller overwrote it himself (or it shares memory with a message he overwrote)
}

// pending are the messages handed IN at one step, waiting for the caller's scribble.
type pending struct {
	op   string
	due  int // scribble after this step
	msgs []proto.Message
}

type changedHandle struct {
	H      int      `json:"h"`
	From   string   `json:"from"`
	Age    int      `json:"age"`
	Was    string   `json:"was"`
	Now    string   `json:"now"`
	Fields []string `json:"fields"`
}

// obs is one line of obs.ndjson (see IsolationTrace.tla).
type obs struct {
	Target  string          `json:"target"`
	Walk    int             `json:"walk"`
	Init    string          `json:"init"`
	Step    int             `json:"step"`
	Kind    string          `json:"kind"`
	Op      string          `json:"op"`
	Ro      bool            `json:"ro"`
	Err     string          `json:"err"`
	Panic   string          `json:"panic"`
	Nin     int             `json:"nin"`
	Nout    int             `json:"nout"`
	Nh      int             `json:"nh"`
	Changed []changedHandle `json:"changed"`
	Pre     string          `json:"pre"`
	Post    string          `json:"post"`
	Sdiff   []string        `json:"sdiff"`
	Aliased int             `json:"aliased"` // handed-out handles that changed because the caller scribbled on an alias (exempt)
	Subs    int             `json:"subs"`
}

type tracker struct {
	mu      sync.Mutex
	next    int
	live    []*handle
	byPtr   map[any]*handle
	pend    []pending
	step    int
	opName  string
	nin     int
	nout    int
	curIn   []proto.Message
	events  atomic.Int64
	subs    []*subscription
	crossed int
	// seen: values of the top-level string fields of handed-out messages, by field name (ids, versions, names...),
	// so that later requests can name things that exist
	seen map[string][]string
}

func newTracker() *tracker { return &tracker{byPtr: map[any]*handle{}, seen: map[string][]string{}} }

// harvest remembers the string fields of a handed-out message (called with the lock held).
func (t *tracker) harvest(m proto.Message) {
	hx.Catch(func() {
		m.ProtoReflect().Range(func(fd protoreflect.FieldDescriptor, v protoreflect.Value) bool {
			if fd.Kind() == protoreflect.StringKind && !fd.IsList() && !fd.IsMap() && v.String() != "" {
				name := string(fd.Name())
				l := t.seen[name]
				for _, x := range l {
					if x == v.String() {
						return true
					}
				}
				if len(l) >= 8 {
					l = l[1:]
				}
				t.seen[name] = append(l, v.String())
			}
			return true
		})
	})
}

// known returns a value seen earlier in a field of that name.
func (t *tracker) known(name string, r *rand.Rand) (string, bool) {
	t.mu.Lock()
	defer t.mu.Unlock()
	l := t.seen[name]
	if len(l) == 0 {
		return "", false
	}
	return l[r.Intn(len(l))], true
}

func validMsg(m proto.Message) bool {
	if m == nil {
		return false
	}
	v := reflect.ValueOf(m)
	if v.Kind() == reflect.Ptr && v.IsNil() {
		return false
	}
	return m.ProtoReflect().IsValid()
}

// in registers a message the caller hands to the operation being executed.
func (t *tracker) in(m proto.Message) {
	if !validMsg(m) {
		return
	}
	t.mu.Lock()
	defer t.mu.Unlock()
	t.nin++
	t.crossed++
	t.curIn = append(t.curIn, m)
}

// out registers a message the library handed out (result, list element, event value).  A message object that is
// already a live handle keeps its first frozen copy: handing it out again does not excuse a change.
func (t *tracker) out(role string, m proto.Message) {
	if !validMsg(m) {
		return
	}
	t.mu.Lock()
	defer t.mu.Unlock()
	t.nout++
	t.crossed++
	if _, ok := t.byPtr[m]; ok {
		return
	}
	t.harvest(m)
	var frozen proto.Message
	if p := hx.Catch(func() { frozen = proto.Clone(m) }); p != "" {
		return
	}
	t.next++
	h := &handle{id: t.next, from: t.opName + "." + role, step: t.step, m: m, frozen: frozen}
	t.live = append(t.live, h)
	t.byPtr[m] = h
	for len(t.live) > maxLive {
		delete(t.byPtr, t.live[0].m)
		t.live = t.live[1:]
	}
}

// check compares every live handed-out handle with its frozen copy; changed ones are reported once (they are
// re-frozen).  own: the message objects the caller has just scribbled on (his arguments and the messages nested in
// them): a handle that IS one of those objects changed by the caller's own hand and is exempt from then on.  A
// handle that is another object and changed with the scribble shares memory with the caller's message: reported.
func (t *tracker) check(own map[any]bool) (nh int, changed []changedHandle, aliased int) {
	t.mu.Lock()
	defer t.mu.Unlock()
	changed = []changedHandle{}
	for _, h := range t.live {
		if h.scribbled {
			continue
		}
		nh++
		equal := false
		if p := hx.Catch(func() { equal = proto.Equal(h.m, h.frozen) }); p != "" {
			equal = false
		}
		if equal {
			continue
		}
		if own[h.m] {
			h.scribbled = true
			aliased++
			continue
		}
		ch := changedHandle{H: h.id, From: h.from, Age: t.step - h.step, Was: digest(h.frozen), Fields: []string{}}
		hx.Catch(func() {
			ch.Now = digest(h.m)
			ch.Fields = diffFields(h.frozen.ProtoReflect(), h.m.ProtoReflect(), "", 0)
		})
		if ch.Now == ch.Was {
			ch.Now += "'" // unequal by proto.Equal but same bytes (cannot happen for well-formed messages)
		}
		hx.Catch(func() { h.frozen = proto.Clone(h.m) })
		changed = append(changed, ch)
	}
	return
}

// digest is a short content hash (deterministic serialisation).
func digest(ms ...proto.Message) string {
	h := sha1.New()
	for _, m := range ms {
		if !validMsg(m) {
			h.Write([]byte{0})
			continue
		}
		b, err := proto.MarshalOptions{Deterministic: true}.Marshal(m)
		if err != nil {
			b = []byte(err.Error())
		}
		fmt.Fprintf(h, "%d:", len(b))
		h.Write(b)
	}
	return hex.EncodeToString(h.Sum(nil))[:12]
}

// diffFields names the fields in which two messages of one type differ (paths, at most two levels).
func diffFields(a, b protoreflect.Message, prefix string, depth int) []string {
	res := []string{}
	fds := a.Descriptor().Fields()
	for i := 0; i < fds.Len(); i++ {
		fd := fds.Get(i)
		ha, hb := a.Has(fd), b.Has(fd)
		if !ha && !hb {
			continue
		}
		name := prefix + string(fd.Name())
		if ha != hb {
			res = append(res, name)
			continue
		}
		if fd.Message() != nil && !fd.IsList() && !fd.IsMap() {
			sub := a.Get(fd).Message()
			sub2 := b.Get(fd).Message()
			if !proto.Equal(sub.Interface(), sub2.Interface()) {
				if depth < 1 {
					res = append(res, diffFields(sub, sub2, name+".", depth+1)...)
				} else {
					res = append(res, name)
				}
			}
			continue
		}
		// scalars, lists, maps: compare through one-field messages
		x, y := a.New(), b.New()
		x.Set(fd, a.Get(fd))
		y.Set(fd, b.Get(fd))
		if !proto.Equal(x.Interface(), y.Interface()) {
			res = append(res, name)
		}
	}
	sort.Strings(res)
	if len(res) > 6 {
		res = append(res[:6], "...")
	}
	return res
}

// ---- the caller's scribble -------------------------------------------------------------------------------------

const (
	garbageString = "\x7fSCRIBBLED\x7f"
	garbageInt    = 123456789
)

// ownMessages collects the message objects reachable from ms (themselves, nested messages, list elements, map
// values): the objects the caller is about to overwrite.
func ownMessages(ms []proto.Message) map[any]bool {
	own := map[any]bool{}
	var walk func(m protoreflect.Message, depth int)
	walk = func(m protoreflect.Message, depth int) {
		if !m.IsValid() || depth > 8 {
			return
		}
		own[m.Interface()] = true
		m.Range(func(fd protoreflect.FieldDescriptor, v protoreflect.Value) bool {
			switch {
			case fd.IsMap():
				if fd.MapValue().Message() != nil {
					v.Map().Range(func(_ protoreflect.MapKey, mv protoreflect.Value) bool { walk(mv.Message(), depth+1); return true })
				}
			case fd.IsList():
				if fd.Message() != nil {
					for i := 0; i < v.List().Len(); i++ {
						walk(v.List().Get(i).Message(), depth+1)
					}
				}
			case fd.Message() != nil:
				walk(v.Message(), depth+1)
			}
			return true
		})
	}
	for _, m := range ms {
		if validMsg(m) {
			hx.Catch(func() { walk(m.ProtoReflect(), 0) })
		}
	}
	return own
}

// scribbleMessage is the caller overwriting a message he handed to a write.  First every piece of memory reachable
// from the message is written THROUGH, in place, the way recycling a request message does (`*ev.EnterTotal = -101`,
// `ev.Traits[0].Name = ...`): the pointers of optional scalars, the elements of repeated fields, the entries of maps,
// byte slices, oneof wrappers, the fields of nested messages.  Then every field is set through protoreflect (which
// replaces pointers and grows lists and maps).  Anything that shares memory with the message shows the first pass.
func scribbleMessage(m proto.Message) {
	if !validMsg(m) {
		return
	}
	writeThrough(reflect.ValueOf(m), 0)
	scribble(m.ProtoReflect(), 0)
}

// writeThrough walks the generated Go struct of a message and stores garbage into the memory it points to, without
// replacing any pointer, slice or map.
func writeThrough(v reflect.Value, depth int) {
	if depth > 12 {
		return
	}
	switch v.Kind() {
	case reflect.Ptr:
		if v.IsNil() {
			return
		}
		if v.Elem().Kind() == reflect.Struct {
			st := v.Elem()
			for i := 0; i < st.NumField(); i++ {
				if st.Type().Field(i).IsExported() {
					writeThrough(st.Field(i), depth+1)
				}
			}
			return
		}
		writeThrough(v.Elem(), depth+1) // optional scalar: write through the pointer
	case reflect.Interface: // a oneof: write into the wrapper it holds
		if !v.IsNil() {
			writeThrough(v.Elem(), depth+1)
		}
	case reflect.Slice:
		if v.Type().Elem().Kind() == reflect.Uint8 { // bytes
			for i := 0; i < v.Len(); i++ {
				v.Index(i).SetUint(v.Index(i).Uint() ^ 0xFF)
			}
			return
		}
		for i := 0; i < v.Len(); i++ {
			writeThrough(v.Index(i), depth+1)
		}
	case reflect.Map:
		for _, k := range v.MapKeys() {
			e := v.MapIndex(k)
			switch e.Kind() {
			case reflect.Ptr, reflect.Slice:
				writeThrough(e, depth+1)
			default:
				g := reflect.New(e.Type()).Elem()
				g.Set(e)
				writeThrough(g, depth+1)
				v.SetMapIndex(k, g)
			}
		}
	case reflect.Bool:
		if v.CanSet() {
			v.SetBool(!v.Bool())
		}
	case reflect.Int32, reflect.Int64:
		if v.CanSet() {
			v.SetInt(-garbageInt)
		}
	case reflect.Uint32, reflect.Uint64:
		if v.CanSet() {
			v.SetUint(garbageInt + 1)
		}
	case reflect.Float32, reflect.Float64:
		if v.CanSet() {
			v.SetFloat(-54321.5)
		}
	case reflect.String:
		if v.CanSet() {
			v.SetString("\x7fWRITTEN-THROUGH\x7f")
		}
	}
}

// scribble sets every field of m through protoreflect: nested messages, list elements, map values and byte slices
// are overwritten in place, then every field is set.
func scribble(m protoreflect.Message, depth int) {
	fds := m.Descriptor().Fields()
	for i := 0; i < fds.Len(); i++ {
		fd := fds.Get(i)
		switch {
		case fd.IsMap():
			mp := m.Mutable(fd).Map()
			var keys []protoreflect.MapKey
			mp.Range(func(k protoreflect.MapKey, v protoreflect.Value) bool { keys = append(keys, k); return true })
			for _, k := range keys {
				if fd.MapValue().Message() != nil {
					scribble(mp.Get(k).Message(), depth+1)
				} else {
					mp.Set(k, garbageScalar(fd.MapValue(), mp.Get(k)))
				}
			}
			if fd.MapValue().Message() == nil {
				mp.Set(garbageScalar(fd.MapKey(), protoreflect.Value{}).MapKey(), garbageScalar(fd.MapValue(), protoreflect.Value{}))
			} else if depth < 3 {
				v := mp.NewValue()
				scribble(v.Message(), depth+1)
				mp.Set(garbageScalar(fd.MapKey(), protoreflect.Value{}).MapKey(), v)
			}
		case fd.IsList():
			l := m.Mutable(fd).List()
			for j := 0; j < l.Len(); j++ {
				if fd.Message() != nil {
					scribble(l.Get(j).Message(), depth+1)
				} else {
					l.Set(j, garbageScalar(fd, l.Get(j)))
				}
			}
			// reverse in place, then one more element
			for a, b := 0, l.Len()-1; a < b && fd.Message() == nil; a, b = a+1, b-1 {
				x, y := l.Get(a), l.Get(b)
				l.Set(a, y)
				l.Set(b, x)
			}
			if fd.Message() == nil {
				l.Append(garbageScalar(fd, protoreflect.Value{}))
			} else if depth < 3 {
				v := l.NewElement()
				scribble(v.Message(), depth+1)
				l.Append(v)
			}
		case fd.Message() != nil:
			if m.Has(fd) {
				scribble(m.Get(fd).Message(), depth+1)
			} else if depth < 3 && fd.ContainingOneof() == nil {
				scribble(m.Mutable(fd).Message(), depth+1)
			}
		default:
			var cur protoreflect.Value
			if m.Has(fd) {
				cur = m.Get(fd)
			}
			m.Set(fd, garbageScalar(fd, cur))
		}
	}
}

func garbageScalar(fd protoreflect.FieldDescriptor, cur protoreflect.Value) protoreflect.Value {
	switch fd.Kind() {
	case protoreflect.BoolKind:
		if cur.IsValid() {
			return protoreflect.ValueOfBool(!cur.Bool())
		}
		return protoreflect.ValueOfBool(true)
	case protoreflect.EnumKind:
		vals := fd.Enum().Values()
		n := vals.Get(vals.Len() - 1).Number()
		if cur.IsValid() && cur.Enum() == n {
			n = vals.Get(0).Number()
		}
		return protoreflect.ValueOfEnum(n)
	case protoreflect.Int32Kind, protoreflect.Sint32Kind, protoreflect.Sfixed32Kind:
		return protoreflect.ValueOfInt32(garbageInt)
	case protoreflect.Int64Kind, protoreflect.Sint64Kind, protoreflect.Sfixed64Kind:
		return protoreflect.ValueOfInt64(garbageInt)
	case protoreflect.Uint32Kind, protoreflect.Fixed32Kind:
		return protoreflect.ValueOfUint32(garbageInt)
	case protoreflect.Uint64Kind, protoreflect.Fixed64Kind:
		return protoreflect.ValueOfUint64(garbageInt)
	case protoreflect.FloatKind:
		return protoreflect.ValueOfFloat32(-12345.5)
	case protoreflect.DoubleKind:
		return protoreflect.ValueOfFloat64(-12345.5)
	case protoreflect.StringKind:
		return protoreflect.ValueOfString(garbageString)
	case protoreflect.BytesKind:
		if cur.IsValid() {
			b := cur.Bytes()
			for i := range b { // in place
				b[i] ^= 0xFF
			}
		}
		return protoreflect.ValueOfBytes([]byte(garbageString))
	}
	panic("unexpected kind " + fd.Kind().String())
}

// ---- subscriptions ---------------------------------------------------------------------------------------------

type subscription struct {
	name   string
	cancel func()
	done   chan struct{}
}

var protoMessageType = reflect.TypeOf((*proto.Message)(nil)).Elem()

// adopt starts a collector on a channel of events (any element type): every message found in an event (the event
// itself if it is a message, else its exported message-typed fields) is a handed-out message.
func (t *tracker) adopt(name string, ch any, cancel func()) {
	s := &subscription{name: name, cancel: cancel, done: make(chan struct{})}
	t.mu.Lock()
	t.subs = append(t.subs, s)
	opName := t.opName
	t.mu.Unlock()
	cv := reflect.ValueOf(ch)
	go func() {
		defer close(s.done)
		for {
			ev, ok := cv.Recv()
			if !ok {
				// The library closed the channel (PullID does when the item is deleted): the caller lets go of the
				// subscription.  (Collection.PullID leaves its inner Pull subscribed until the context ends, and with
				// backpressure that inner subscription blocks every later write.)
				cancel()
				return
			}
			t.eventMessages(opName+"."+name, ev)
			t.events.Add(1)
		}
	}()
}

func (t *tracker) eventMessages(role string, ev reflect.Value) {
	if ev.Kind() == reflect.Interface && !ev.IsNil() {
		ev = ev.Elem()
	}
	if ev.Type().Implements(protoMessageType) {
		if ev.Kind() == reflect.Ptr && ev.IsNil() {
			return
		}
		t.outAs(role, "event", ev.Interface().(proto.Message))
		return
	}
	if ev.Kind() == reflect.Ptr {
		if ev.IsNil() {
			return
		}
		ev = ev.Elem()
	}
	if ev.Kind() != reflect.Struct {
		return
	}
	for i := 0; i < ev.NumField(); i++ {
		f := ev.Field(i)
		if !ev.Type().Field(i).IsExported() {
			continue
		}
		if (f.Kind() == reflect.Ptr || f.Kind() == reflect.Interface) && !f.IsNil() && f.Type().Implements(protoMessageType) {
			t.outAs(role, ev.Type().Field(i).Name, f.Interface().(proto.Message))
		}
	}
}

// outAs registers an event message under the name of the subscription that delivered it (not the running op).
func (t *tracker) outAs(sub, field string, m proto.Message) {
	if !validMsg(m) {
		return
	}
	t.mu.Lock()
	defer t.mu.Unlock()
	t.nout++
	t.crossed++
	if _, ok := t.byPtr[m]; ok {
		return
	}
	var frozen proto.Message
	if p := hx.Catch(func() { frozen = proto.Clone(m) }); p != "" {
		return
	}
	t.next++
	h := &handle{id: t.next, from: sub + "." + field, step: t.step, m: m, frozen: frozen}
	t.live = append(t.live, h)
	t.byPtr[m] = h
	for len(t.live) > maxLive {
		delete(t.byPtr, t.live[0].m)
		t.live = t.live[1:]
	}
}

// settle waits until the collectors have gone quiet: events of a write reach them through two or three goroutine
// hops after the write returned.
func (t *tracker) settle() {
	t.mu.Lock()
	n := len(t.subs)
	t.mu.Unlock()
	if n == 0 {
		return
	}
	stable, last := 0, t.events.Load()
	deadline := time.Now().Add(20 * time.Millisecond)
	for stable < 4 && time.Now().Before(deadline) {
		for i := 0; i < 40; i++ {
			runtime.Gosched()
		}
		time.Sleep(20 * time.Microsecond)
		if cur := t.events.Load(); cur == last {
			stable++
		} else {
			stable, last = 0, cur
		}
	}
}

func (t *tracker) closeOldest() {
	t.mu.Lock()
	if len(t.subs) == 0 {
		t.mu.Unlock()
		return
	}
	s := t.subs[0]
	t.subs = t.subs[1:]
	t.mu.Unlock()
	s.cancel()
	select {
	case <-s.done:
	case <-time.After(2 * time.Second):
		leakedSubs.Add(1)
	}
}

func (t *tracker) closeAll() {
	for {
		t.mu.Lock()
		n := len(t.subs)
		t.mu.Unlock()
		if n == 0 {
			return
		}
		t.closeOldest()
	}
}

func (t *tracker) nsubs() int {
	t.mu.Lock()
	defer t.mu.Unlock()
	return len(t.subs)
}

var leakedSubs atomic.Int64

// env is what an operation closure gets: the random source of the step and the registry.
type env struct {
	r *rand.Rand
	t *tracker
	// present: the walk's construction (Isolation.tla InitKinds): "present" = initial value / records / positions are
	// configured, "absent" = the object is constructed holding nothing (or only what its package defaults give it)
	present bool
	// held, pick: the walk asks this step's plain write to use, as the written message, the pick-th message the caller
	// holds from an earlier read, result or event (Isolation.tla WriteFrom / WriteOther) instead of a fresh one
	held     bool
	heldPick int
}

// heldOf returns a live handed-out message of the given type, or nil.
func (t *tracker) heldOf(md protoreflect.MessageDescriptor, pick int) proto.Message {
	t.mu.Lock()
	defer t.mu.Unlock()
	var c []proto.Message
	for _, h := range t.live {
		if !h.scribbled && h.m.ProtoReflect().Descriptor() == md {
			c = append(c, h.m)
		}
	}
	if len(c) == 0 {
		return nil
	}
	return c[pick%len(c)]
}

// written gives the message a plain write hands in: a fresh one built by mk (registered as the caller's, to be
// scribbled on later), or - when the walk says "held" and there is one - a message the caller got from the library
// earlier.  A held message is not the caller's to change: it is neither registered as "in" nor scribbled on, and it
// is only ever used with writes that are documented not to edit their argument (no InterceptBefore, no id callback).
func written[T proto.Message](e *env, mk func(e *env) T) (m T, isHeld bool) {
	if e.held {
		var z T
		if h := e.t.heldOf(z.ProtoReflect().Descriptor(), e.heldPick); h != nil {
			return h.(T), true
		}
	}
	m = mk(e)
	e.in(m)
	return m, false
}

// initialIDs: the ids of the initial records of a collection-like object.
func (e *env) initialIDs() []string {
	if !e.present {
		return nil
	}
	return strPool[:1+e.r.Intn(2)]
}

func (e *env) in(m proto.Message) proto.Message { e.t.in(m); return m }
func (e *env) out(role string, m proto.Message) { e.t.out(role, m) }
func (e *env) flip(pct int) bool                { return e.r.Intn(100) < pct }
func (e *env) pick(ss ...string) string         { return ss[e.r.Intn(len(ss))] }

func outList[T proto.Message](e *env, role string, l []T) {
	for _, m := range l {
		e.t.out(role, m)
	}
}
