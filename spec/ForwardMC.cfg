INIT MCInit
NEXT MCNext
INVARIANTS FinalObservationConforms AtMostOneChild MessagesArePrefix HeaderFirst NotFoundTouchesNothing
CONSTANTS
  NCases = 0
