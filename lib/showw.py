import json,sys,glob
E={'i':0,'s':0,'o':-1,'n':{'p':False,'a':0,'cp':False,'ci':0},'f':{'p':False,'c':0,'d':0},'r':[],'rm':[],'m':{'k1':0,'k2':0},'u':{'k':0,'ui':0,'una':0},'x':[]}
pp=lambda m: 'nil' if m['nil'] else [ '.'.join(p) for p in m['paths']]
sh=lambda m: {k:v for k,v in m.items() if v!=E.get(k)}
for f in sys.argv[1:]:
    d=json.load(open(f)); w=d['witness']
    if 'M' in w:
        print(d['signature'], '|',w['via'],'M',pp(w['M']),'W',pp(w['W']),'R',pp(w['R']),'err',w['err'], w['panic'][:100])
        print('  old ',sh(w['old'])); print('  wr  ',sh(w['wr'])); print('  post',sh(w['post']))
    else:
        print(d['signature'], '|',w['via'],'mask',pp(w['mask']),'valid',w['valid'], w['panic'][:100])
        print('  msg ',sh(w['msg'])); print('  res ',sh(w['res'])); print('  post',sh(w['post']))
