SPECIFICATION Spec
INVARIANTS PcsOK ContractHolds NoPanic CancelledOnceDecided NotCancelledEarly
PROPERTIES CallEnds AllGoroutinesEnd
