---------------------------- MODULE ResourceTrace ----------------------------
(***************************************************************************)
(* Trace use of Resource.tla.  Every line of obs.ndjson is one step of    *)
(* the real code: the contents before the call (read back through the     *)
(* API), the call with its options, what it returned, the contents        *)
(* afterwards, the callbacks that fired and what every open subscriber    *)
(* was handed.  Because the pre-state is logged, each line is checked on  *)
(* its own against the specification's step function; Fails(t) is the set *)
(* of clauses (tagged with the property they belong to) the line          *)
(* falsifies.                                                             *)
(***************************************************************************)
EXTENDS Resource, Json

VARIABLE c
Obs == ndJsonDeserialize("obs.ndjson")

Mk(m) == [nil |-> m.nil, paths |-> m.paths]
OptsOf(t) == [t.o EXCEPT !.M = Mk(t.o.M), !.R = Mk(t.o.R), !.mm = Mk(t.o.mm), !.W = Mk(t.o.W), !.mw = Mk(t.o.mw)]
SubOf(s) == [pid |-> s.pid, updatesOnly |-> s.updatesOnly, mask |-> Mk(s.mask), inc |-> s.inc]
If(b, name) == IF b THEN {} ELSE {name}

\* (PullID looks its id up through the id interceptor)
SubT(t, k) == [SubOf(t.subs[k]) EXCEPT !.pid = Icpt(t.icpt, t.subs[k].pid)]
\* which property a delivery clause belongs to: include predicates are C08
DelivTag(sub) == IF sub.inc.nil THEN "C04:" ELSE "C08:"

CollWriteFails(t, r) ==
  If(t.panic = "", "C01:panic")
  \* the option list is the caller's: a call does not write into it (a sibling list sharing its array would change)
  \cup If(~t.optsTouched, "C01:caller-option-list-written")
  \cup If(t.err = r.err, "C01:err")
  \cup If(t.ret = r.ret, "C01:ret")
  \cup If(t.post = r.post, IF r.err = "OK" THEN "C01:post" ELSE "C01:failed-call-changed-store")
  \cup If(t.idcb = r.idcb, "C01:id-callback")
  \cup If(t.ccb = r.ccb, "C01:created-callback")
  \cup UNION { LET sub == SubT(t, s) IN
               IF sub.pid = "" THEN {} ELSE
               LET pd == IF r.ev = <<>> \/ t.closedBefore[s] THEN [deliv |-> <<>>, closes |-> FALSE]
                         ELSE PidDeliver(r.ev[1], sub, t.equiv)
               IN If(t.deliv[s] = pd.deliv, "C04:single-item-subscription-event")
                  \cup If(t.closedAfter[s] = (t.closedBefore[s] \/ pd.closes),
                          IF pd.closes THEN "C04:single-item-subscription-survives-removal"
                          ELSE "C04:single-item-subscription-ended-without-removal")
             : s \in 1..Len(t.subs) }
  \cup UNION { LET sub == SubT(t, s)
                   want == IF r.ev = <<>> THEN <<>> ELSE CollDeliver(r.ev[1], sub, t.equiv)
               IN IF sub.pid # "" THEN {} ELSE
                  If(t.deliv[s] = want,
                     DelivTag(sub) \o (IF r.err # "OK" THEN "failed-write-emitted"
                                       ELSE IF Len(t.deliv[s]) # Len(want) THEN "event-count"
                                       ELSE IF t.deliv[s][1].ct # want[1].ct THEN "event-change-time"
                                       ELSE "event-content"))
             : s \in 1..Len(t.subs) }

\* a write the properties do not settle (update mask naming a parent of writable fields): a
\* rejection must still be a clean InvalidArgument, anything else is left unjudged
CollJudge(t, r) == IF r.err # "Unsettled" THEN CollWriteFails(t, r)
                   ELSE IF t.err = "InvalidArgument" THEN CollWriteFails(t, [r EXCEPT !.err = "InvalidArgument"])
                   ELSE {}

CollFails(t) ==
  CASE t.op = "Subscribe" ->
         UNION { LET sub == SubT(t, s) IN
                 If(t.deliv[s] = (IF sub.pid = "" THEN CollSeed(t.pre, sub) ELSE PidSeed(t.pre, sub)),
                    DelivTag(sub) \o "seed") : s \in 1..Len(t.subs) }
    [] t.op = "Update" -> CollJudge(t, CollUpdate(t.pre, t.now, t.icpt, t.id, t.msg, OptsOf(t)))
    [] t.op = "Add" -> CollJudge(t, CollUpdate(t.pre, t.now, t.icpt, t.id, t.msg,
                                                    [OptsOf(t) EXCEPT !.xa = TRUE, !.cia = TRUE]))
    [] t.op = "Delete" -> CollWriteFails(t, CollDelete(t.pre, t.now, t.icpt, t.id, OptsOf(t)))
    [] t.op = "Get" ->
         LET want == CollGet(t.pre, t.icpt, t.id, Mk(t.mask)) IN
         If(t.panic = "", "C01:panic") \cup If(t.ret = want /\ t.found = want.has, "C01:get")
         \cup If(t.post = t.pre, "C01:read-changed-store")
         \cup If(\A s \in 1..Len(t.subs) : t.deliv[s] = <<>>, "C04:read-emitted")
    [] t.op = "List" ->
         LET want == CollList(t.pre, Mk(t.mask), t.inc) IN
         If(t.panic = "", "C01:panic")
         \cup If(t.list = [k \in 1..Len(want) |-> want[k].body], IF t.inc.nil THEN "C01:list" ELSE "C08:list")
         \cup If(t.post = t.pre, "C01:read-changed-store")
         \cup If(\A s \in 1..Len(t.subs) : t.deliv[s] = <<>>, "C04:read-emitted")
    [] OTHER -> {"C01:unknown-op"}

ValFails(t) ==
  CASE t.op = "Subscribe" ->
         UNION { If(t.deliv[s] = ValSeed(t.vpre, SubOf(t.subs[s])), "C04:seed") : s \in 1..Len(t.subs) }
    [] t.op = "Set" ->
         LET r0 == ValSet(t.vpre, t.now, t.msg, OptsOf(t))
             r == IF r0.err = "Unsettled" THEN [r0 EXCEPT !.err = "InvalidArgument"] ELSE r0 IN
         IF r0.err = "Unsettled" /\ t.err # "InvalidArgument" THEN {} ELSE
         If(t.panic = "", "C01:panic")
         \cup If(~t.optsTouched, "C01:caller-option-list-written")
         \cup If(t.err = r.err, "C01:err")
         \cup If(t.ret = r.ret, "C01:ret")
         \cup If(t.vpost = r.post, IF r.err = "OK" THEN "C01:post" ELSE "C01:failed-call-changed-store")
         \cup UNION { LET sub == SubOf(t.subs[s])
                          want == IF r.ev = <<>> THEN <<>> ELSE ValDeliver(r.ev[1], t.held[s], sub, t.equiv)
                      IN If(t.deliv[s] = want,
                            "C04:" \o (IF r.err # "OK" THEN "failed-write-emitted"
                                       ELSE IF Len(t.deliv[s]) > Len(want) THEN "equivalent-value-delivered"
                                       ELSE IF Len(t.deliv[s]) < Len(want) THEN "event-missing"
                                       ELSE IF t.deliv[s][1].ct # want[1].ct THEN "event-change-time"
                                       ELSE "event-content"))
                    : s \in 1..Len(t.subs) }
    [] t.op = "VGet" ->
         If(t.panic = "", "C01:panic")
         \cup If(t.ret = (IF t.vpre.has THEN Some(Project(t.vpre.v, Mk(t.mask))) ELSE NoMsg), "C01:get")
         \cup If(t.vpost = t.vpre, "C01:read-changed-store")
         \cup If(\A s \in 1..Len(t.subs) : t.deliv[s] = <<>>, "C04:read-emitted")
    [] OTHER -> {"C01:unknown-op"}

Fails(t) == IF t.res = "coll" THEN CollFails(t) ELSE ValFails(t)
BadLines == { k \in 1..Len(Obs) : Fails(Obs[k]) # {} }
TraceInit == c = 0
TraceNext == UNCHANGED c
EmitBad == \A k \in BadLines : PrintT("BAD " \o ToJson([line |-> k, fails |-> Fails(Obs[k])]))
TraceChecked == EmitBad /\ PrintT("CHECKED " \o ToString(Len(Obs)))
=============================================================================
