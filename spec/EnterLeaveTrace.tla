---------------------------- MODULE EnterLeaveTrace ----------------------------
(***************************************************************************)
(* Trace use of EnterLeave.tla.  One line = one CreateEnterLeaveEvent or  *)
(* ResetTotals on the real model, with the totals before and after read   *)
(* through GetEnterLeaveEvent.  "New" = construction (pre = the initial   *)
(* event's totals, or the default).  se / sl are the totals the event     *)
(* actually carried (the walk gives them relative to the model's current  *)
(* counters; "echo" events are the last event read with only the          *)
(* direction set), how = how they were drawn.                             *)
(***************************************************************************)
EXTENDS EnterLeave, TLC, Json

VARIABLE c
Obs == ndJsonDeserialize("obs.ndjson")
If(b, name) == IF b THEN {} ELSE {name}

Fails(t) ==
  IF t.panic # "" THEN {"panic"}
  \* first read (GetEnterLeaveEvent = post, PullEnterLeaveEvents seed = seed) against the folded option sequence
  ELSE IF t.op = "New" THEN If(t.post = ConfInit(t.opts), IF HasOpt(t.opts, "init") THEN "initial-totals-used" ELSE "default-totals")
                            \cup If(t.seed = t.post, "pull-seed-is-first-read")
  ELSE IF t.op = "Reset" THEN If(t.err = "OK", "err") \cup If(t.post = Reset(t.pre), "reset-totals")
  ELSE LET want == Event(t.pre, t.dir, t.se, t.sl) IN
       If(t.err = "OK", "err")
       \* one clause per counter, named after the rule of the doc comment that applies
       \cup If(t.post.enter = want.enter, "enter-total-" \o Rule(t.se, t.pre.enter) \o (IF t.dir = "ENTER" THEN "-counting" ELSE ""))
       \cup If(t.post.leave = want.leave, "leave-total-" \o Rule(t.sl, t.pre.leave) \o (IF t.dir = "LEAVE" THEN "-counting" ELSE ""))

BadLines == { k \in 1..Len(Obs) : Fails(Obs[k]) # {} }
TraceInit == c = 0
TraceNext == UNCHANGED c
EmitBad == \A k \in BadLines : PrintT("BAD " \o ToJson([line |-> k, fails |-> Fails(Obs[k])]))
TraceChecked == EmitBad /\ PrintT("CHECKED " \o ToString(Len(Obs)))
=============================================================================
