package main

import (
	"context"
	"reflect"
	"sort"
	"time"

	"google.golang.org/protobuf/proto"
	"google.golang.org/protobuf/types/known/timestamppb"

	"github.com/smart-core-os/sc-api/go/traits"
	"github.com/smart-core-os/sc-golang/pkg/resource"
	"github.com/smart-core-os/sc-golang/pkg/trait"
	"github.com/smart-core-os/sc-golang/pkg/trait/accesspb"
	"github.com/smart-core-os/sc-golang/pkg/trait/airqualitysensorpb"
	"github.com/smart-core-os/sc-golang/pkg/trait/airtemperaturepb"
	"github.com/smart-core-os/sc-golang/pkg/trait/bookingpb"
	"github.com/smart-core-os/sc-golang/pkg/trait/electricpb"
	"github.com/smart-core-os/sc-golang/pkg/trait/energystoragepb"
	"github.com/smart-core-os/sc-golang/pkg/trait/enterleavesensorpb"
	"github.com/smart-core-os/sc-golang/pkg/trait/fanspeedpb"
	"github.com/smart-core-os/sc-golang/pkg/trait/hailpb"
	"github.com/smart-core-os/sc-golang/pkg/trait/lightpb"
	"github.com/smart-core-os/sc-golang/pkg/trait/metadatapb"
	"github.com/smart-core-os/sc-golang/pkg/trait/meterpb"
	"github.com/smart-core-os/sc-golang/pkg/trait/modepb"
	"github.com/smart-core-os/sc-golang/pkg/trait/occupancysensorpb"
	"github.com/smart-core-os/sc-golang/pkg/trait/onoffpb"
	"github.com/smart-core-os/sc-golang/pkg/trait/openclosepb"
	"github.com/smart-core-os/sc-golang/pkg/trait/parentpb"
	"github.com/smart-core-os/sc-golang/pkg/trait/presspb"
	"github.com/smart-core-os/sc-golang/pkg/trait/publicationpb"
	"github.com/smart-core-os/sc-golang/pkg/trait/vendingpb"
	"github.com/smart-core-os/sc-golang/pkg/trait/wastepb"
)

// ---- adapters --------------------------------------------------------------------------------------------------

type rd = resource.ReadOption
type wr = resource.WriteOption

// ge drops the (always nil) error of a getter
func ge[T any](f func(...rd) (T, error)) func(...rd) T {
	return func(o ...rd) T { v, _ := f(o...); return v }
}

// ch erases the element type of a subscription channel
func ch[C any](f func(context.Context, ...rd) C) func(context.Context, ...rd) any {
	return func(ctx context.Context, o ...rd) any { return f(ctx, o...) }
}

func zeroOf[T proto.Message]() T {
	var z T
	return z.ProtoReflect().New().Interface().(T)
}

// valueOps: the three operations of a model that wraps one resource.Value.  mk builds the written message.
func valueOps[T proto.Message](names [3]string, get func(...rd) T, update func(T, ...wr) (T, error),
	pull func(context.Context, ...rd) any, mk func(e *env) T) []op {
	z := zeroOf[T]()
	if mk == nil {
		mk = func(e *env) T { return newMsg[T](e, 50) }
	}
	// the written message: fresh, or one held from an earlier read/result/event - except where the model itself edits
	// its argument before the write (light: the preset is filled in)
	plain := names[1] != "UpdateBrightness"
	arg := func(e *env) T {
		if !plain {
			m := mk(e)
			e.in(m)
			return m
		}
		m, _ := written(e, mk)
		return m
	}
	return []op{
		{name: names[0], ro: true, run: func(e *env) error { e.out("result", get(readOpts(e, z)...)); return nil }},
		{name: names[1], run: func(e *env) error {
			m := arg(e)
			res, err := update(m, writeOpts(e, z)...)
			e.out("result", res)
			return err
		}},
		{name: names[1], run: func(e *env) error {
			m := arg(e)
			res, err := update(m)
			e.out("result", res)
			return err
		}},
		{name: names[2], ro: true, run: func(e *env) error {
			o := pullOpts(e, z)
			return subscribe(e, "event", func(ctx context.Context) any { return pull(ctx, o...) })
		}},
		cancelOp(names[2]),
	}
}

func one[T proto.Message](get func(...rd) T) func() []proto.Message {
	return func() []proto.Message { return []proto.Message{get()} }
}

func msgs[T proto.Message](l []T) []proto.Message {
	res := make([]proto.Message, len(l))
	for i, m := range l {
		res[i] = m
	}
	return res
}

var traitPool = []trait.Name{"t.A", "t.B", "t.C", "t.D", "t.E", "t.F", "t.G"}

func someTraits(e *env) []trait.Name {
	n := e.r.Intn(4)
	res := make([]trait.Name, 0, n)
	for ; n > 0; n-- {
		res = append(res, traitPool[e.r.Intn(len(traitPool))])
	}
	return res
}

func init() {
	// ---- models that are one resource.Value -------------------------------------------------------------------
	register(target{name: "access", pkg: "accesspb", typ: reflect.TypeOf(&accesspb.Model{}),
		build: func(e *env) *instance {
			m := accesspb.NewModel()
			return &instance{model: m, state: one(ge(m.GetLastAccessAttempt)),
				ops: valueOps([3]string{"GetLastAccessAttempt", "UpdateLastAccessAttempt", "PullAccessAttempts"},
					ge(m.GetLastAccessAttempt), m.UpdateLastAccessAttempt, ch(m.PullAccessAttempts), nil)}
		}})
	register(target{name: "airquality", pkg: "airqualitysensorpb", typ: reflect.TypeOf(&airqualitysensorpb.Model{}),
		build: func(e *env) *instance {
			var opts []resource.Option
			if e.present {
				opts = append(opts, airqualitysensorpb.WithInitialAirQuality(newMsg[*traits.AirQuality](e, 50)))
			}
			m := airqualitysensorpb.NewModel(opts...)
			return &instance{model: m, state: one(ge(m.GetAirQuality)),
				ops: valueOps([3]string{"GetAirQuality", "UpdateAirQuality", "PullAirQuality"},
					ge(m.GetAirQuality), m.UpdateAirQuality, ch(m.PullAirQuality), nil)}
		}})
	register(target{name: "airtemperature", pkg: "airtemperaturepb", typ: reflect.TypeOf(&airtemperaturepb.Model{}),
		build: func(e *env) *instance {
			var opts []resource.Option
			if e.present {
				opts = append(opts, airtemperaturepb.WithInitialAirTemperature(newMsg[*traits.AirTemperature](e, 50)))
			}
			m := airtemperaturepb.NewModel(opts...)
			return &instance{model: m, state: one(ge(m.GetAirTemperature)),
				ops: valueOps([3]string{"GetAirTemperature", "UpdateAirTemperature", "PullAirTemperature"},
					ge(m.GetAirTemperature), m.UpdateAirTemperature, ch(m.PullAirTemperature), nil)}
		}})
	register(target{name: "energystorage", pkg: "energystoragepb", typ: reflect.TypeOf(&energystoragepb.Model{}),
		build: func(e *env) *instance {
			m := energystoragepb.NewModel()
			return &instance{model: m, state: one(ge(m.GetEnergyLevel)),
				ops: valueOps([3]string{"GetEnergyLevel", "UpdateEnergyLevel", "PullEnergyLevel"},
					ge(m.GetEnergyLevel), m.UpdateEnergyLevel, ch(m.PullEnergyLevel), nil)}
		}})
	register(target{name: "occupancy", pkg: "occupancysensorpb", typ: reflect.TypeOf(&occupancysensorpb.Model{}),
		build: func(e *env) *instance {
			var opts []resource.Option
			if e.present {
				opts = append(opts, occupancysensorpb.WithInitialOccupancy(newMsg[*traits.Occupancy](e, 50)))
			}
			m := occupancysensorpb.NewModel(opts...)
			return &instance{model: m, state: one(ge(m.GetOccupancy)),
				ops: valueOps([3]string{"GetOccupancy", "SetOccupancy", "PullOccupancy"},
					ge(m.GetOccupancy), m.SetOccupancy, ch(m.PullOccupancy), nil)}
		}})
	register(target{name: "onoff", pkg: "onoffpb", typ: reflect.TypeOf(&onoffpb.Model{}),
		build: func(e *env) *instance {
			var opts []resource.Option
			if e.present {
				opts = append(opts, onoffpb.WithInitialOnOff(newMsg[*traits.OnOff](e, 50)))
			}
			m := onoffpb.NewModel(opts...)
			return &instance{model: m, state: one(ge(m.GetOnOff)),
				ops: valueOps([3]string{"GetOnOff", "UpdateOnOff", "PullOnOff"},
					ge(m.GetOnOff), m.UpdateOnOff, ch(m.PullOnOff), nil)}
		}})
	register(target{name: "press", pkg: "presspb", typ: reflect.TypeOf(&presspb.Model{}),
		build: func(e *env) *instance {
			m := presspb.NewModel(traits.PressedState_Press(e.r.Intn(3)))
			return &instance{model: m, state: one(m.GetPressedState),
				ops: valueOps([3]string{"GetPressedState", "UpdatePressedState", "PullPressedState"},
					m.GetPressedState, m.UpdatePressedState, ch(m.PullPressedState), nil)}
		}})
	register(target{name: "meter", pkg: "meterpb", typ: reflect.TypeOf(&meterpb.Model{}),
		build: func(e *env) *instance {
			var opts []resource.Option
			if e.present {
				opts = append(opts, resource.WithInitialValue(newMsg[*traits.MeterReading](e, 60)))
			}
			m := meterpb.NewModel(opts...)
			ops := valueOps([3]string{"GetMeterReading", "UpdateMeterReading", "PullMeterReadings"},
				ge(m.GetMeterReading), m.UpdateMeterReading, ch(m.PullMeterReadings), nil)
			ops = append(ops,
				op{name: "RecordReading", run: func(e *env) error {
					res, err := m.RecordReading(float32(e.r.Intn(9)) * 12.5)
					e.out("result", res)
					return err
				}},
				op{name: "Reset", run: func(e *env) error { res, err := m.Reset(); e.out("result", res); return err }})
			return &instance{model: m, state: one(ge(m.GetMeterReading)), ops: ops}
		}})
	register(target{name: "fanspeed", pkg: "fanspeedpb", typ: reflect.TypeOf(&fanspeedpb.Model{}),
		notOps: []string{"DeriveValues"}, // an interceptor, exported for composition
		build: func(e *env) *instance {
			m := fanspeedpb.NewModel()
			mk := func(e *env) *traits.FanSpeed {
				f := newMsg[*traits.FanSpeed](e, 50)
				f.Preset = e.pick("", "", "off", "low", "med", "high", "full")
				return f
			}
			return &instance{model: m, state: one(m.FanSpeed),
				ops: valueOps([3]string{"FanSpeed", "UpdateFanSpeed", "PullFanSpeed"}, m.FanSpeed, m.UpdateFanSpeed, ch(m.PullFanSpeed), mk)}
		}})
	register(target{name: "mode", pkg: "modepb", typ: reflect.TypeOf(&modepb.Model{}),
		build: func(e *env) *instance {
			modes := &traits.Modes{Modes: []*traits.Modes_Mode{
				{Name: "a", Ordered: true, Values: []*traits.Modes_Value{{Name: "a"}, {Name: "b"}, {Name: "c"}}},
				{Name: "b", Values: []*traits.Modes_Value{{Name: "c"}, {Name: "d"}}},
			}}
			m := modepb.NewModelModes(modes)
			ops := valueOps([3]string{"ModeValues", "UpdateModeValues", "PullModeValues"}, m.ModeValues, m.UpdateModeValues, ch(m.PullModeValues), nil)
			ops = append(ops,
				op{name: "Modes", ro: true, run: func(e *env) error { e.out("result", m.Modes()); return nil }},
				op{name: "AvailableValues", ro: true, run: func(e *env) error {
					outList(e, "element", m.AvailableValues(e.pick("a", "b", "zz")))
					return nil
				}})
			return &instance{model: m, ops: ops, state: func() []proto.Message { return []proto.Message{m.ModeValues(), m.Modes()} }}
		}})
	register(target{name: "light", pkg: "lightpb", typ: reflect.TypeOf(&lightpb.Model{}),
		build: func(e *env) *instance {
			m := lightpb.NewModel(
				lightpb.WithPreset(25, &traits.LightPreset{Name: "a", Title: "Preset A"}),
				lightpb.WithPreset(75, &traits.LightPreset{Name: "b", Title: "Preset B"}))
			mk := func(e *env) *traits.Brightness {
				b := newMsg[*traits.Brightness](e, 40)
				if e.flip(50) {
					b.Preset = &traits.LightPreset{Name: e.pick("a", "b", "zz")}
				}
				return b
			}
			ops := valueOps([3]string{"GetBrightness", "UpdateBrightness", "PullBrightness"},
				ge(m.GetBrightness), m.UpdateBrightness, ch(m.PullBrightness), mk)
			ops = append(ops, op{name: "ListPresets", ro: true, run: func(e *env) error { outList(e, "element", m.ListPresets()); return nil }})
			return &instance{model: m, ops: ops, state: func() []proto.Message {
				return append([]proto.Message{ge(m.GetBrightness)()}, msgs(m.ListPresets())...)
			}}
		}})
	register(target{name: "enterleave", pkg: "enterleavesensorpb", typ: reflect.TypeOf(&enterleavesensorpb.Model{}),
		build: func(e *env) *instance {
			var opts []resource.Option
			if e.present {
				opts = append(opts, enterleavesensorpb.WithInitialEnterLeaveEvent(newMsg[*traits.EnterLeaveEvent](e, 70)))
			}
			m := enterleavesensorpb.NewModel(opts...)
			z := &traits.EnterLeaveEvent{}
			return &instance{model: m, state: one(ge(m.GetEnterLeaveEvent)), ops: []op{
				{name: "GetEnterLeaveEvent", ro: true, run: func(e *env) error {
					e.out("result", ge(m.GetEnterLeaveEvent)(readOpts(e, z)...))
					return nil
				}},
				{name: "CreateEnterLeaveEvent", run: func(e *env) error {
					ev := newMsg[*traits.EnterLeaveEvent](e, 60)
					e.in(ev)
					return m.CreateEnterLeaveEvent(ev)
				}},
				{name: "CreateEnterLeaveEvent", run: func(e *env) error {
					ev := newMsg[*traits.EnterLeaveEvent](e, 60)
					e.in(ev)
					return m.CreateEnterLeaveEvent(ev, writeOpts(e, z)...)
				}},
				{name: "ResetTotals", run: func(e *env) error { return m.ResetTotals() }},
				{name: "PullEnterLeaveEvents", ro: true, run: func(e *env) error {
					o := pullOpts(e, z)
					return subscribe(e, "event", func(ctx context.Context) any { return m.PullEnterLeaveEvents(ctx, o...) })
				}},
				cancelOp("PullEnterLeaveEvents"),
			}}
		}})
	register(target{name: "metadata", pkg: "metadatapb", typ: reflect.TypeOf(&metadatapb.Model{}),
		build: func(e *env) *instance {
			m := metadatapb.NewModel()
			mk := func(e *env) *traits.Metadata {
				md := newMsg[*traits.Metadata](e, 30)
				md.Traits = nil
				for n := e.r.Intn(4); n > 0; n-- {
					md.Traits = append(md.Traits, mkTraitMetadata(e))
				}
				return md
			}
			ops := valueOps([3]string{"GetMetadata", "UpdateMetadata", "PullMetadata"}, ge(m.GetMetadata), m.UpdateMetadata, ch(m.PullMetadata), mk)
			ops = append(ops,
				op{name: "MergeMetadata", run: func(e *env) error {
					md := mk(e)
					e.in(md)
					res, err := m.MergeMetadata(md)
					e.out("result", res)
					return err
				}},
				op{name: "MergeMetadata", run: func(e *env) error {
					md := mk(e)
					e.in(md)
					res, err := m.MergeMetadata(md, writeOpts(e, md)...)
					e.out("result", res)
					return err
				}},
				op{name: "UpdateTraitMetadata", run: func(e *env) error {
					tm := mkTraitMetadata(e)
					e.in(tm)
					res, err := m.UpdateTraitMetadata(tm)
					e.out("result", res)
					return err
				}},
				op{name: "UpdateTraitMetadata", run: func(e *env) error {
					tm := mkTraitMetadata(e)
					e.in(tm)
					res, err := m.UpdateTraitMetadata(tm)
					e.out("result", res)
					return err
				}})
			return &instance{model: m, ops: ops, state: one(ge(m.GetMetadata))}
		}})
	register(target{name: "metadatacollection", pkg: "metadatapb", typ: reflect.TypeOf(&metadatapb.Collection{}),
		build: func(e *env) *instance {
			m := metadatapb.NewCollection()
			z := &traits.Metadata{}
			name := func(e *env) string { return e.pick("a", "b", "c") }
			mk := func(e *env) *traits.Metadata {
				md := newMsg[*traits.Metadata](e, 30)
				md.Traits = nil
				for n := e.r.Intn(4); n > 0; n-- {
					md.Traits = append(md.Traits, mkTraitMetadata(e))
				}
				return md
			}
			return &instance{model: m, state: func() []proto.Message { return msgs(m.ListMetadata()) }, ops: []op{
				{name: "GetMetadata", ro: true, run: func(e *env) error {
					res, err := m.GetMetadata(name(e), readOpts(e, z)...)
					e.out("result", res)
					return err
				}},
				{name: "ListMetadata", ro: true, run: func(e *env) error { outList(e, "element", m.ListMetadata(readOpts(e, z)...)); return nil }},
				{name: "UpdateMetadata", run: func(e *env) error {
					md := mk(e)
					e.in(md)
					res, err := m.UpdateMetadata(name(e), md, append(writeOpts(e, z), resource.WithCreateIfAbsent())...)
					e.out("result", res)
					return err
				}},
				{name: "MergeMetadata", run: func(e *env) error {
					md := mk(e)
					e.in(md)
					res, err := m.MergeMetadata(name(e), md, resource.WithCreateIfAbsent())
					e.out("result", res)
					return err
				}},
				{name: "UpdateTraitMetadata", run: func(e *env) error {
					tm := mkTraitMetadata(e)
					e.in(tm)
					res, err := m.UpdateTraitMetadata(name(e), tm, resource.WithCreateIfAbsent())
					e.out("result", res)
					return err
				}},
				{name: "UpdateTraitMetadata", run: func(e *env) error {
					tm := mkTraitMetadata(e)
					e.in(tm)
					res, err := m.UpdateTraitMetadata(name(e), tm, resource.WithCreateIfAbsent())
					e.out("result", res)
					return err
				}},
				{name: "DeleteMetadata", run: func(e *env) error {
					res, err := m.DeleteMetadata(name(e), resource.WithAllowMissing(e.flip(50)))
					e.out("result", res)
					return err
				}},
				{name: "PullMetadata", ro: true, run: func(e *env) error {
					o, n := pullOpts(e, z), name(e)
					return subscribe(e, "event", func(ctx context.Context) any { return m.PullMetadata(ctx, n, o...) })
				}},
				{name: "PullAllMetadata", ro: true, run: func(e *env) error {
					o := pullOpts(e, z)
					return subscribe(e, "event", func(ctx context.Context) any { return m.PullAllMetadata(ctx, o...) })
				}},
				cancelOp("PullMetadata"),
			}}
		}})

	// ---- parent ------------------------------------------------------------------------------------------------
	register(target{name: "parent", pkg: "parentpb", typ: reflect.TypeOf(&parentpb.Model{}),
		build: func(e *env) *instance {
			mkChild := func(e *env, name string) *traits.Child {
				c := &traits.Child{Name: name}
				seen := map[trait.Name]bool{}
				for _, t := range append(someTraits(e), someTraits(e)...) {
					if !seen[t] {
						seen[t] = true
						c.Traits = append(c.Traits, &traits.Trait{Name: string(t)})
					}
				}
				sort.Slice(c.Traits, func(i, j int) bool { return c.Traits[i].Name < c.Traits[j].Name })
				return c
			}
			var initial []*traits.Child
			for _, n := range e.initialIDs() {
				initial = append(initial, mkChild(e, n))
			}
			m := parentpb.NewModel(parentpb.WithInitialChildren(initial...))
			name := func(e *env) string { return e.pick("a", "b", "c", "d") }
			return &instance{model: m, state: func() []proto.Message { return msgs(m.ListChildren()) }, ops: []op{
				{name: "ListChildren", ro: true, run: func(e *env) error { outList(e, "element", m.ListChildren()); return nil }},
				{name: "AddChild", run: func(e *env) error {
					c := mkChild(e, name(e))
					e.in(c)
					m.AddChild(c)
					return nil
				}},
				{name: "RemoveChildByName", run: func(e *env) error {
					res, err := m.RemoveChildByName(name(e), resource.WithAllowMissing(e.flip(50)))
					e.out("result", res)
					return err
				}},
				{name: "AddChildTrait", run: func(e *env) error {
					res, _ := m.AddChildTrait(name(e), someTraits(e)...)
					e.out("result", res)
					return nil
				}},
				{name: "AddChildTrait", run: func(e *env) error {
					res, _ := m.AddChildTrait(name(e), someTraits(e)...)
					e.out("result", res)
					return nil
				}},
				{name: "RemoveChildTrait", run: func(e *env) error {
					e.out("result", m.RemoveChildTrait(name(e), someTraits(e)...))
					return nil
				}},
				{name: "RemoveChildTrait", run: func(e *env) error {
					e.out("result", m.RemoveChildTrait(name(e), someTraits(e)...))
					return nil
				}},
				{name: "PullChildren", ro: true, run: func(e *env) error {
					o := pullOpts(e, &traits.Child{})
					return subscribe(e, "event", func(ctx context.Context) any { return m.PullChildren(ctx, o...) })
				}},
				cancelOp("PullChildren"),
			}}
		}})

	// ---- waste -------------------------------------------------------------------------------------------------
	register(target{name: "waste", pkg: "wastepb", typ: reflect.TypeOf(&wastepb.Model{}),
		notOps: []string{"GetWasteRecordCount"}, // returns an int
		build: func(e *env) *instance {
			m := wastepb.NewModel()
			z := &traits.WasteRecord{}
			all := func() []*traits.WasteRecord { n := m.GetWasteRecordCount(); return m.ListWasteRecords(n, n) }
			return &instance{model: m, state: func() []proto.Message { return msgs(all()) }, ops: []op{
				{name: "ListWasteRecords", ro: true, run: func(e *env) error {
					n := m.GetWasteRecordCount()
					outList(e, "element", m.ListWasteRecords(n-e.r.Intn(5), 1+e.r.Intn(10)))
					return nil
				}},
				{name: "AddWasteRecord", run: func(e *env) error {
					w := newMsg[*traits.WasteRecord](e, 60)
					e.in(w)
					res, err := m.AddWasteRecord(w, writeOpts(e, z)...)
					e.out("result", res)
					return err
				}},
				{name: "AddWasteRecord", run: func(e *env) error {
					w := newMsg[*traits.WasteRecord](e, 60)
					e.in(w)
					res, err := m.AddWasteRecord(w)
					e.out("result", res)
					return err
				}},
				{name: "GenerateWasteRecord", run: func(e *env) error {
					ts := timestamppb.New(time.Unix(int64(e.r.Intn(1000)), 0))
					e.in(ts)
					res, err := m.GenerateWasteRecord(ts)
					e.out("result", res)
					return err
				}},
				{name: "PullWasteRecords", ro: true, run: func(e *env) error {
					o := pullOpts(e, z)
					return subscribe(e, "event", func(ctx context.Context) any { return m.PullWasteRecords(ctx, o...) })
				}},
				cancelOp("PullWasteRecords"),
			}}
		}})

	// ---- booking -----------------------------------------------------------------------------------------------
	register(target{name: "booking", pkg: "bookingpb", typ: reflect.TypeOf(&bookingpb.Model{}),
		build: func(e *env) *instance {
			var initial []*traits.Booking
			for _, id := range e.initialIDs() {
				b := newMsg[*traits.Booking](e, 50)
				b.Id = id
				initial = append(initial, b)
			}
			m := bookingpb.NewModel(bookingpb.WithInitialBooking(initial...))
			z := &traits.Booking{}
			return &instance{model: m, state: func() []proto.Message { return msgs(m.ListBookings()) }, ops: []op{
				{name: "ListBookings", ro: true, run: func(e *env) error { outList(e, "element", m.ListBookings(readOpts(e, z)...)); return nil }},
				{name: "CreateBooking", run: func(e *env) error {
					b := newMsg[*traits.Booking](e, 50)
					b.Id = e.pick("", "", "a", "b", "c", "d")
					e.in(b)
					res, err := m.CreateBooking(b)
					e.out("result", res)
					return err
				}},
				{name: "UpdateBooking", run: func(e *env) error {
					b := newMsg[*traits.Booking](e, 50)
					b.Id = e.pick("a", "b", "c", "d")
					e.in(b)
					res, err := m.UpdateBooking(b, writeOpts(e, z)...)
					e.out("result", res)
					return err
				}},
				{name: "UpdateBooking", run: func(e *env) error {
					b := newMsg[*traits.Booking](e, 50)
					b.Id = e.pick("a", "b", "c", "d")
					e.in(b)
					res, err := m.UpdateBooking(b)
					e.out("result", res)
					return err
				}},
				{name: "PullBookings", ro: true, run: func(e *env) error {
					o := pullOpts(e, z)
					return subscribe(e, "event", func(ctx context.Context) any { return m.PullBookings(ctx, o...) })
				}},
				cancelOp("PullBookings"),
			}}
		}})

	// ---- hail --------------------------------------------------------------------------------------------------
	register(target{name: "hail", pkg: "hailpb", typ: reflect.TypeOf(&hailpb.Model{}),
		build: func(e *env) *instance {
			keep := time.Duration(-1)
			if e.flip(50) {
				keep = 0 // every CreateHail collects the hails that have arrived
			}
			m := hailpb.NewModel(hailpb.WithKeepAlive(keep))
			z := &traits.Hail{}
			ids := []string{"zz"}
			id := func(e *env) string { return ids[e.r.Intn(len(ids))] }
			return &instance{model: m, state: func() []proto.Message { return msgs(m.ListHails()) }, ops: []op{
				{name: "ListHails", ro: true, run: func(e *env) error { outList(e, "element", m.ListHails(readOpts(e, z)...)); return nil }},
				{name: "GetHail", ro: true, run: func(e *env) error {
					res, _ := m.GetHail(id(e), readOpts(e, z)...)
					e.out("result", res)
					return nil
				}},
				{name: "CreateHail", run: func(e *env) error {
					h := newMsg[*traits.Hail](e, 50)
					e.in(h)
					res, err := m.CreateHail(h)
					e.out("result", res)
					if res != nil && len(ids) < 8 {
						ids = append(ids, res.Id)
					}
					return err
				}},
				{name: "CreateHail", run: func(e *env) error {
					h := newMsg[*traits.Hail](e, 50)
					e.in(h)
					res, err := m.CreateHail(h)
					e.out("result", res)
					if res != nil && len(ids) < 8 {
						ids = append(ids, res.Id)
					}
					return err
				}},
				{name: "UpdateHail", run: func(e *env) error {
					h := newMsg[*traits.Hail](e, 50)
					h.Id = id(e)
					e.in(h)
					res, err := m.UpdateHail(h, writeOpts(e, z)...)
					e.out("result", res)
					return err
				}},
				{name: "DeleteHail", run: func(e *env) error {
					res, err := m.DeleteHail(id(e), resource.WithAllowMissing(e.flip(50)))
					e.out("result", res)
					return err
				}},
				{name: "PullHail", ro: true, run: func(e *env) error {
					o, i := pullOpts(e, z), id(e)
					return subscribe(e, "event", func(ctx context.Context) any { return m.PullHail(ctx, i, o...) })
				}},
				{name: "PullHails", ro: true, run: func(e *env) error {
					o := pullOpts(e, z)
					return subscribe(e, "event", func(ctx context.Context) any { return m.PullHails(ctx, o...) })
				}},
				cancelOp("PullHails"),
			}}
		}})

	// ---- publication -------------------------------------------------------------------------------------------
	register(target{name: "publication", pkg: "publicationpb", typ: reflect.TypeOf(&publicationpb.Model{}),
		build: func(e *env) *instance {
			var initial []*traits.Publication
			for _, id := range e.initialIDs() {
				p := newMsg[*traits.Publication](e, 60)
				p.Id = id
				initial = append(initial, p)
			}
			m := publicationpb.NewModel(publicationpb.WithInitialPublication(initial...))
			z := &traits.Publication{}
			id := func(e *env) string { return e.pick("a", "b", "c", "d") }
			wopts := func(e *env) []wr {
				o := writeOpts(e, z)
				if e.flip(40) {
					o = append(o, publicationpb.WithNewVersion())
				}
				if e.flip(40) {
					o = append(o, publicationpb.WithNewPublishTime())
				}
				if e.flip(40) {
					o = append(o, publicationpb.WithResetReceipt())
				}
				return o
			}
			return &instance{model: m, state: func() []proto.Message { return msgs(m.ListPublications()) }, ops: []op{
				{name: "ListPublications", ro: true, run: func(e *env) error {
					outList(e, "element", m.ListPublications(readOpts(e, z)...))
					return nil
				}},
				{name: "GetPublication", ro: true, run: func(e *env) error {
					res, _ := m.GetPublication(id(e), readOpts(e, z)...)
					e.out("result", res)
					return nil
				}},
				{name: "CreatePublication", run: func(e *env) error {
					p := newMsg[*traits.Publication](e, 60)
					p.Id = e.pick("", "a", "b", "c", "d")
					e.in(p)
					res, err := m.CreatePublication(p, wopts(e)...)
					e.out("result", res)
					return err
				}},
				{name: "UpdatePublication", run: func(e *env) error {
					p := newMsg[*traits.Publication](e, 60)
					i := id(e)
					p.Id = i
					e.in(p)
					res, err := m.UpdatePublication(i, p, wopts(e)...)
					e.out("result", res)
					return err
				}},
				{name: "UpdatePublication", run: func(e *env) error {
					p := newMsg[*traits.Publication](e, 60)
					i := id(e)
					p.Id = i
					e.in(p)
					res, err := m.UpdatePublication(i, p, publicationpb.WithResetReceipt(), publicationpb.WithNewVersion())
					e.out("result", res)
					return err
				}},
				{name: "DeletePublication", run: func(e *env) error {
					res, err := m.DeletePublication(id(e), resource.WithAllowMissing(e.flip(50)))
					e.out("result", res)
					return err
				}},
				{name: "PullPublication", ro: true, run: func(e *env) error {
					o, i := pullOpts(e, z), id(e)
					return subscribe(e, "event", func(ctx context.Context) any { return m.PullPublication(ctx, i, o...) })
				}},
				{name: "PullPublications", ro: true, run: func(e *env) error {
					o := pullOpts(e, z)
					return subscribe(e, "event", func(ctx context.Context) any { return m.PullPublications(ctx, o...) })
				}},
				cancelOp("PullPublications"),
			}}
		}})

	// ---- open/close --------------------------------------------------------------------------------------------
	register(target{name: "openclose", pkg: "openclosepb", typ: reflect.TypeOf(&openclosepb.Model{}),
		notOps: []string{"HasPreset"}, // returns a bool
		build: func(e *env) *instance {
			pos := func(d traits.OpenClosePosition_Direction, pct float32) *traits.OpenClosePosition {
				return &traits.OpenClosePosition{Direction: d, OpenPercent: pct, Resistance: traits.OpenClosePosition_HELD}
			}
			opts := []resource.Option{
				openclosepb.WithPreset(&traits.OpenClosePositions_Preset{Name: "open", Title: "Open"}, pos(1, 100), pos(2, 100)),
				openclosepb.WithPreset(&traits.OpenClosePositions_Preset{Name: "closed", Title: "Closed"}, pos(1, 0), pos(2, 0)),
			}
			if e.present {
				opts = append(opts, openclosepb.WithInitialPositions(pos(1, 50), pos(2, 25)))
			}
			m := openclosepb.NewModel(opts...)
			zs, z := &traits.OpenClosePositions{}, &traits.OpenClosePosition{}
			dir := func(e *env) traits.OpenClosePosition_Direction {
				return traits.OpenClosePosition_Direction(e.r.Intn(4))
			}
			mkPos := func(e *env) *traits.OpenClosePosition {
				p := newMsg[*traits.OpenClosePosition](e, 50)
				p.Direction = dir(e)
				p.OpenPercentTween = nil
				if e.flip(40) {
					p.OpenPercent, p.Resistance, p.TargetOpenPercent = float32(e.r.Intn(2)*100), traits.OpenClosePosition_HELD, 0
				}
				return p
			}
			return &instance{model: m,
				state: func() []proto.Message {
					return append([]proto.Message{ge(m.GetPositions)()}, msgs(m.ListPresets())...)
				},
				ops: []op{
					{name: "GetPositions", ro: true, run: func(e *env) error {
						res, err := m.GetPositions(readOpts(e, zs)...)
						e.out("result", res)
						return err
					}},
					{name: "GetPosition", ro: true, run: func(e *env) error {
						res, err := m.GetPosition(dir(e), readOpts(e, z)...)
						e.out("result", res)
						return err
					}},
					{name: "ListPresets", ro: true, run: func(e *env) error { outList(e, "element", m.ListPresets()); return nil }},
					{name: "UpdatePositions", run: func(e *env) error {
						ps := &traits.OpenClosePositions{}
						if e.flip(40) {
							ps.Preset = &traits.OpenClosePositions_Preset{Name: e.pick("open", "closed", "zz")}
						} else {
							for n := 1 + e.r.Intn(2); n > 0; n-- {
								ps.States = append(ps.States, mkPos(e))
							}
						}
						e.in(ps)
						var o []wr
						if e.flip(30) {
							o = append(o, resource.WithUpdatePaths(e.pick("states.open_percent", "states.resistance", "states")))
						}
						res, err := m.UpdatePositions(ps, o...)
						e.out("result", res)
						return err
					}},
					{name: "UpdatePosition", run: func(e *env) error {
						p := mkPos(e)
						e.in(p)
						res, err := m.UpdatePosition(p, append(writeOpts(e, z), resource.WithCreateIfAbsent())...)
						e.out("result", res)
						return err
					}},
					{name: "UpdatePositionN", run: func(e *env) error {
						p := mkPos(e)
						e.in(p)
						res, err := m.UpdatePositionN(p.Direction, p, writeOpts(e, z)...)
						e.out("result", res)
						return err
					}},
					{name: "PullPositions", ro: true, run: func(e *env) error {
						o := pullOpts(e, zs)
						return subscribe(e, "event", func(ctx context.Context) any { return m.PullPositions(ctx, o...) })
					}},
					cancelOp("PullPositions"),
				}}
		}})

	// ---- electric ----------------------------------------------------------------------------------------------
	register(target{name: "electric", pkg: "electricpb", typ: reflect.TypeOf(&electricpb.Model{}),
		build: func(e *env) *instance {
			var initial []*traits.ElectricMode
			for _, id := range e.initialIDs() {
				md := newMsg[*traits.ElectricMode](e, 50)
				md.Id, md.Normal = id, false
				initial = append(initial, md)
			}
			eopts := []resource.Option{electricpb.WithInitialMode(initial...)}
			// configurations with writable fields on the resources the model feeds from one another: the active mode
			// is written with the message read from the modes collection
			if e.flip(50) {
				eopts = append(eopts, electricpb.WithActiveModeOption(resource.WithWritablePaths(&traits.ElectricMode{},
					"id", "title", "start_time", "normal")))
			}
			if e.flip(25) {
				eopts = append(eopts, electricpb.WithModeOption(resource.WithWritablePaths(&traits.ElectricMode{},
					"id", "title", "description", "voltage", "normal", "segments")))
			}
			m := electricpb.NewModel(eopts...)
			zd, zm := &traits.ElectricDemand{}, &traits.ElectricMode{}
			ids := []string{"a", "b", "c", "zz"}
			id := func(e *env) string { return ids[e.r.Intn(len(ids))] }
			mkMode := func(e *env, id string) *traits.ElectricMode {
				md := newMsg[*traits.ElectricMode](e, 50)
				md.Id = id
				return md
			}
			return &instance{model: m,
				state: func() []proto.Message {
					return append([]proto.Message{m.Demand(), m.ActiveMode()}, msgs(m.Modes())...)
				},
				ops: []op{
					{name: "Demand", ro: true, run: func(e *env) error { e.out("result", m.Demand(readOpts(e, zd)...)); return nil }},
					{name: "UpdateDemand", run: func(e *env) error {
						d := newMsg[*traits.ElectricDemand](e, 50)
						e.in(d)
						res, err := m.UpdateDemand(d, writeOpts(e, zd)...)
						e.out("result", res)
						return err
					}},
					{name: "PullDemand", ro: true, run: func(e *env) error {
						o := pullOpts(e, zd)
						return subscribe(e, "event", func(ctx context.Context) any { return m.PullDemand(ctx, o...) })
					}},
					{name: "ActiveMode", ro: true, run: func(e *env) error { e.out("result", m.ActiveMode(readOpts(e, zm)...)); return nil }},
					{name: "PullActiveMode", ro: true, run: func(e *env) error {
						o := pullOpts(e, zm)
						return subscribe(e, "event", func(ctx context.Context) any { return m.PullActiveMode(ctx, o...) })
					}},
					{name: "SetActiveMode", run: func(e *env) error {
						md, _ := written(e, func(e *env) *traits.ElectricMode { return mkMode(e, id(e)) })
						return m.SetActiveMode(md)
					}},
					{name: "ChangeActiveMode", run: func(e *env) error {
						res, err := m.ChangeActiveMode(id(e))
						e.out("result", res)
						return err
					}},
					{name: "ChangeActiveMode/reselect", run: func(e *env) error {
						res, err := m.ChangeActiveMode(m.ActiveMode().GetId())
						e.out("result", res)
						return err
					}},
					{name: "ChangeToNormalMode", run: func(e *env) error {
						res, err := m.ChangeToNormalMode()
						e.out("result", res)
						return err
					}},
					{name: "FindMode", ro: true, run: func(e *env) error {
						res, _ := m.FindMode(id(e))
						e.out("result", res)
						return nil
					}},
					{name: "NormalMode", ro: true, run: func(e *env) error {
						res, _ := m.NormalMode()
						e.out("result", res)
						return nil
					}},
					{name: "Modes", ro: true, run: func(e *env) error { outList(e, "element", m.Modes(readOpts(e, zm)...)); return nil }},
					{name: "CreateMode", run: func(e *env) error {
						md := mkMode(e, "")
						e.in(md)
						res, err := m.CreateMode(md)
						e.out("result", res)
						if res != nil && len(ids) < 8 {
							ids = append(ids, res.Id)
						}
						return err
					}},
					{name: "AddMode", run: func(e *env) error {
						md := mkMode(e, e.pick("a", "b", "c", "d"))
						e.in(md)
						return m.AddMode(md)
					}},
					{name: "UpdateMode", run: func(e *env) error {
						md, _ := written(e, func(e *env) *traits.ElectricMode { return mkMode(e, id(e)) })
						res, err := m.UpdateMode(md, writeOpts(e, zm)...)
						e.out("result", res)
						return err
					}},
					{name: "DeleteMode", run: func(e *env) error { return m.DeleteMode(id(e), resource.WithAllowMissing(e.flip(30))) }},
					{name: "PullModes", ro: true, run: func(e *env) error {
						o := pullOpts(e, zm)
						return subscribe(e, "event", func(ctx context.Context) any { return m.PullModes(ctx, o...) })
					}},
					cancelOp("PullModes"),
				}}
		}})

	// ---- vending -----------------------------------------------------------------------------------------------
	register(target{name: "vending", pkg: "vendingpb", typ: reflect.TypeOf(&vendingpb.Model{}),
		build: func(e *env) *instance {
			mkStock := func(e *env, name string) *traits.Consumable_Stock {
				s := newMsg[*traits.Consumable_Stock](e, 60)
				s.Consumable = name
				return s
			}
			mkCons := func(e *env, name string) *traits.Consumable {
				c := newMsg[*traits.Consumable](e, 40)
				c.Name = name
				return c
			}
			var stock []*traits.Consumable_Stock
			var cons []*traits.Consumable
			for _, n := range e.initialIDs() {
				stock = append(stock, mkStock(e, n))
				cons = append(cons, mkCons(e, n))
			}
			m := vendingpb.NewModel(vendingpb.WithInitialStock(stock...), vendingpb.WithInitialConsumable(cons...))
			zs, zc := &traits.Consumable_Stock{}, &traits.Consumable{}
			name := func(e *env) string { return e.pick("a", "b", "c", "d") }
			return &instance{model: m,
				state: func() []proto.Message { return append(msgs(m.ListInventory()), msgs(m.ListConsumables())...) },
				ops: []op{
					{name: "ListConsumables", ro: true, run: func(e *env) error {
						outList(e, "element", m.ListConsumables(readOpts(e, zc)...))
						return nil
					}},
					{name: "GetConsumable", ro: true, run: func(e *env) error {
						res, _ := m.GetConsumable(name(e), readOpts(e, zc)...)
						e.out("result", res)
						return nil
					}},
					{name: "CreateConsumable", run: func(e *env) error {
						c := mkCons(e, e.pick("", "a", "b", "c", "d"))
						e.in(c)
						res, err := m.CreateConsumable(c)
						e.out("result", res)
						return err
					}},
					{name: "UpdateConsumable", run: func(e *env) error {
						c := mkCons(e, name(e))
						e.in(c)
						res, err := m.UpdateConsumable(c, writeOpts(e, zc)...)
						e.out("result", res)
						return err
					}},
					{name: "DeleteConsumable", run: func(e *env) error {
						res, err := m.DeleteConsumable(name(e), resource.WithAllowMissing(e.flip(50)))
						e.out("result", res)
						return err
					}},
					{name: "PullConsumable", ro: true, run: func(e *env) error {
						o, n := pullOpts(e, zc), name(e)
						return subscribe(e, "event", func(ctx context.Context) any { return m.PullConsumable(ctx, n, o...) })
					}},
					{name: "PullConsumables", ro: true, run: func(e *env) error {
						o := pullOpts(e, zc)
						return subscribe(e, "event", func(ctx context.Context) any { return m.PullConsumables(ctx, o...) })
					}},
					{name: "ListInventory", ro: true, run: func(e *env) error {
						outList(e, "element", m.ListInventory(readOpts(e, zs)...))
						return nil
					}},
					{name: "GetStock", ro: true, run: func(e *env) error {
						res, _ := m.GetStock(name(e), readOpts(e, zs)...)
						e.out("result", res)
						return nil
					}},
					{name: "CreateStock", run: func(e *env) error {
						s := mkStock(e, e.pick("", "a", "b", "c", "d"))
						e.in(s)
						res, err := m.CreateStock(s)
						e.out("result", res)
						return err
					}},
					{name: "UpdateStock", run: func(e *env) error {
						s := mkStock(e, name(e))
						e.in(s)
						res, err := m.UpdateStock(s, writeOpts(e, zs)...)
						e.out("result", res)
						return err
					}},
					{name: "DeleteStock", run: func(e *env) error {
						res, err := m.DeleteStock(name(e), resource.WithAllowMissing(e.flip(50)))
						e.out("result", res)
						return err
					}},
					{name: "DispenseInstantly", run: func(e *env) error {
						q := &traits.Consumable_Quantity{Amount: float32(e.r.Intn(5)), Unit: traits.Consumable_Unit(e.r.Intn(4))}
						e.in(q)
						res, err := m.DispenseInstantly(name(e), q)
						e.out("result", res)
						return err
					}},
					{name: "DispenseInstantly", run: func(e *env) error {
						q := &traits.Consumable_Quantity{Amount: float32(e.r.Intn(5)), Unit: traits.Consumable_Unit(e.r.Intn(4))}
						e.in(q)
						res, err := m.DispenseInstantly(name(e), q)
						e.out("result", res)
						return err
					}},
					{name: "PullStock", ro: true, run: func(e *env) error {
						o, n := pullOpts(e, zs), name(e)
						return subscribe(e, "event", func(ctx context.Context) any { return m.PullStock(ctx, n, o...) })
					}},
					{name: "PullInventory", ro: true, run: func(e *env) error {
						o := pullOpts(e, zs)
						return subscribe(e, "event", func(ctx context.Context) any { return m.PullInventory(ctx, o...) })
					}},
					cancelOp("PullInventory"),
				}}
		}})
}

func mkTraitMetadata(e *env) *traits.TraitMetadata {
	tm := &traits.TraitMetadata{Name: string(traitPool[e.r.Intn(len(traitPool))])}
	if e.flip(70) {
		tm.More = map[string]string{}
		for n := 1 + e.r.Intn(2); n > 0; n-- {
			tm.More[e.pick(strPool...)] = e.pick(strPool...)
		}
	}
	return tm
}
