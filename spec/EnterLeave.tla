---------------------------- MODULE EnterLeave ----------------------------
(***************************************************************************)
(* C20, enterleavesensorpb.Model: two counters, enter total and leave     *)
(* total, each optional ([has, v]).  An event in direction ENTER (LEAVE)  *)
(* advances the enter (leave) total by one; a total supplied with the     *)
(* event that differs from the current one replaces it; ResetTotals sets  *)
(* both to zero.  After any event both totals are present (an absent      *)
(* total counts as zero).                                                 *)
(*                                                                         *)
(* Not settled by the property text: an ENTER (LEAVE) event that supplies *)
(* a total EQUAL to the current one -- "supplied totals win" says it      *)
(* stays, the counter rule says it advances (the implementation advances).*)
(* Modelled after the implementation, not asserted (Settled).             *)
(***************************************************************************)
EXTENDS Integers, Sequences

None == [has |-> FALSE, v |-> 0]
Some(x) == [has |-> TRUE, v |-> x]
Cur(t) == IF t.has THEN t.v ELSE 0

Adjust(supplied, cur, counts) ==
  IF supplied.has /\ supplied.v # Cur(cur) THEN Some(supplied.v)
  ELSE Some(Cur(cur) + (IF counts THEN 1 ELSE 0))
Settled(supplied, cur, counts) == ~(supplied.has /\ supplied.v = Cur(cur) /\ counts)

\* dir \in {"ENTER", "LEAVE", "DIRECTION_UNSPECIFIED"}; se, sl = totals supplied with the event
Event(st, dir, se, sl) == [enter |-> Adjust(se, st.enter, dir = "ENTER"), leave |-> Adjust(sl, st.leave, dir = "LEAVE")]
Reset(st) == [enter |-> Some(0), leave |-> Some(0)]
DefaultInit == [enter |-> Some(0), leave |-> Some(0)]
=============================================================================
