package main

import (
	"github.com/smart-core-os/sc-golang/verifharness/hx"
)

type listRow struct {
	Pkg     string   `json:"pkg"`
	File    string   `json:"file"`
	Ctor    string   `json:"ctor"`
	Svc     string   `json:"svc"`
	Unary   []string `json:"unary"`
	Streams []string `json:"streams"`
}

// cmdList prints the router table with the methods of each captured service descriptor.
func cmdList() {
	out := hx.NewOut(hx.Arg("-out", "/dev/stdout"))
	defer out.Close()
	for _, e := range routers {
		cp := &capture{}
		e.New().Register(cp)
		if cp.desc == nil {
			hx.Fatal("%s.%s registers nothing", e.Pkg, e.Ctor)
		}
		row := listRow{Pkg: e.Pkg, File: e.File, Ctor: e.Ctor, Svc: cp.desc.ServiceName, Unary: []string{}, Streams: []string{}}
		for _, m := range cp.desc.Methods {
			row.Unary = append(row.Unary, m.MethodName)
		}
		for _, s := range cp.desc.Streams {
			row.Streams = append(row.Streams, s.StreamName)
		}
		out.Write(row)
	}
}
