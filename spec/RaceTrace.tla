----------------------------- MODULE RaceTrace -----------------------------
(***************************************************************************)
(* Trace use for C11.  The verdict on the code comes from the Go race      *)
(* detector, not from here; this module guards against VACUOUS workloads.  *)
(* One line of obs.ndjson = one program as harness/cmd/racex ran it:        *)
(*   procs    the operation kinds of every process                          *)
(*   inst, on the number of instances of every type and the instance each   *)
(*            process worked on                                             *)
(*   planned  per process: iterations * number of operations                *)
(*   done     per process: operations that ran to their end                 *)
(*   problem  non-empty when the program could not be run to the end        *)
(* A program counts only if every process completed all of its operations   *)
(* in every iteration and, by the table of RaceOps.tla, two different       *)
(* processes then had operations on one shared object, one of them writing  *)
(* (programs with several instances: two processes on different instances   *)
(* of one type, which share only the package-level defaults)                *)
(* (the processes are released together and never synchronised by the       *)
(* harness).  A line failing this makes the check INCONCLUSIVE, never a     *)
(* violation and never a pass.                                              *)
(***************************************************************************)
EXTENDS RaceOps, TLC, Json

VARIABLE c
Obs == ndJsonDeserialize("obs.ndjson")

If(b, name) == IF b THEN {} ELSE {name}
Fails(t) ==
  If(t.problem = "", "program-not-run-to-the-end")
  \cup If(KnownKinds(t.procs), "unknown-operation-kind")
  \cup If(Len(t.done) = Len(t.procs) /\ \A p \in 1..Len(t.procs) : t.done[p] = t.planned[p] /\ t.planned[p] = t.iters * Len(t.procs[p]),
          "operations-not-completed")
  \cup If(Len(t.procs) >= 2 /\ t.iters >= 1, "fewer-than-two-processes")
  \cup If(KnownKinds(t.procs) => NonVacuous(t.procs, t.on, t.inst),
          IF t.inst = 1 THEN "no-concurrent-conflicting-pair-on-one-object"
          ELSE "no-two-processes-on-different-instances-of-one-type")

BadLines == { k \in 1..Len(Obs) : Fails(Obs[k]) # {} }
TraceInit == c = 0
TraceNext == UNCHANGED c
EmitBad == \A k \in BadLines : PrintT("BAD " \o ToJson([line |-> k, fails |-> Fails(Obs[k])]))
\* which access disciplines of RaceModel.tla the programs exercised
Good == { j \in 1..Len(Obs) : Fails(Obs[j]) = {} }
EmitCov == PrintT("COVER " \o ToJson(UNION { DisciplinesAll(Obs[k].procs) : k \in Good }))
           /\ PrintT("MULTI " \o ToString(Cardinality({ k \in Good : Obs[k].inst > 1 })))
           /\ PrintT("OPTS " \o ToString(Cardinality({ k \in Good : SharedOptionPair(Obs[k].procs) })))
TraceChecked == EmitBad /\ EmitCov /\ PrintT("CHECKED " \o ToString(Len(Obs)))
=============================================================================
