---------------------------- MODULE ForwardTrace ----------------------------
(***************************************************************************)
(* Trace use of Forward.tla.  Every line of obs.ndjson is one invocation   *)
(* of one method of one generated router through its captured gRPC handler *)
(* (kind "fwd": script echoed, registry read back before and after, the    *)
(* calls the fake child connections recorded, what the caller received),   *)
(* or one application of the default-name interceptor (kind "icpt").       *)
(* Fails(o) (Forward.tla) is evaluated on every line.                      *)
(***************************************************************************)
EXTENDS Forward

Obs == ndJsonDeserialize("obs.ndjson")
BadLines == { l \in 1..Len(Obs) : Fails(Obs[l]) # {} }
TraceInit == s = 0 /\ stream = FALSE /\ pc = "trace" /\ i = 0 /\ o = 0
TraceNext == UNCHANGED vars
EmitBad == \A l \in BadLines : PrintT("BAD " \o ToJson([line |-> l, fails |-> Fails(Obs[l])]))
TraceChecked == EmitBad /\ PrintT("CHECKED " \o ToString(Len(Obs)))
=============================================================================
