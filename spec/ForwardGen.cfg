INIT GenInit
NEXT GenNext
INVARIANT EmitCase
CONSTANTS
  MaxK = 0
