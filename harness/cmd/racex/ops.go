package main

import (
	"context"
	"errors"
	"fmt"
	"time"

	"google.golang.org/grpc"
	"google.golang.org/grpc/codes"
	"google.golang.org/grpc/metadata"
	"google.golang.org/grpc/status"
	"google.golang.org/protobuf/proto"

	"github.com/smart-core-os/sc-api/go/traits"
	"github.com/smart-core-os/sc-golang/internal/testproto"
	"github.com/smart-core-os/sc-golang/pkg/group"
	"github.com/smart-core-os/sc-golang/pkg/resource"
	"github.com/smart-core-os/sc-golang/pkg/trait"
)

// The alphabet of operation kinds; spec/RaceOps.tla lists the same names with the object each one touches.
type opT struct {
	needs []string
	run   func(w *world, pr *proc) error
}

var opTable = map[string]opT{}

func reg(kind string, needs []string, run func(w *world, pr *proc) error) {
	opTable[kind] = opT{needs: needs, run: run}
}

// how long a consumer waits for events that may never come
const waitEvents = 400 * time.Microsecond

// consume reads up to k events from ch, then cancels the subscription and keeps receiving until the library has
// closed the channel (some forwarders send without watching the context).
func consume[T any](pr *proc, ch <-chan T, cancel func(), k int, read func(T)) {
	t := time.NewTimer(waitEvents)
	got := 0
	closed := false
	for got < k && !closed {
		select {
		case ev, ok := <-ch:
			if !ok {
				closed = true
				break
			}
			read(ev)
			got++
			pr.events++
		case <-t.C:
			got = k
		}
	}
	t.Stop()
	cancel()
	if closed {
		return
	}
	safety := time.NewTimer(5 * time.Second)
	defer safety.Stop()
	for {
		select {
		case ev, ok := <-ch:
			if !ok {
				return
			}
			read(ev)
			pr.events++
		case <-safety.C:
			pr.prob = "a subscription channel was not closed 5s after its context was cancelled"
			return
		}
	}
}

func readValueChange(c *resource.ValueChange) {
	touch(c.Value)
	touchTime(c.ChangeTime)
	useBool(c.SeedValue)
	useBool(c.LastSeedValue)
}

func readCollectionChange(c *resource.CollectionChange) {
	useString(c.Id)
	touch(c.OldValue)
	touch(c.NewValue)
	touchTime(c.ChangeTime)
	useInt(int64(c.ChangeType))
	useBool(c.SeedValue)
	useBool(c.LastSeedValue)
}

// interceptors that read the messages they are given; they write only where the API documents it (the new value)
func readingInterceptors() []resource.WriteOption {
	return []resource.WriteOption{
		resource.InterceptBefore(func(old, change proto.Message) {
			touch(old)
			touch(change)
			if o, ok := old.(*testproto.TestAllTypes); ok {
				change.(*testproto.TestAllTypes).DefaultInt64 = o.GetDefaultInt64() + 1
			}
		}),
		resource.InterceptAfter(func(old, new proto.Message) {
			touch(old)
			touch(new)
			if n, ok := new.(*testproto.TestAllTypes); ok {
				n.DefaultUint32++
			}
		}),
	}
}

func (pr *proc) msg() *testproto.TestAllTypes { return mkMsg(1 + pr.rnd.n(50)) }
func (pr *proc) collID() string               { return collIDs[pr.rnd.n(len(collIDs))] }
func (pr *proc) name() string                 { return rtrNames[pr.rnd.n(len(rtrNames))] }

func init() {
	V, C, B, R, W := []string{"val"}, []string{"coll"}, []string{"bus"}, []string{"rtr"}, []string{"wrap"}

	// ------------------------------------------------------------------ resource.Value
	reg("v.get", V, func(w *world, pr *proc) error { touch(w.val[pr.in].Get()); return nil })
	reg("v.getmask", V, func(w *world, pr *proc) error {
		touch(w.val[pr.in].Get(resource.WithReadPaths(&testproto.TestAllTypes{}, "default_int32", "default_nested_message.a")))
		return nil
	})
	reg("v.set", V, func(w *world, pr *proc) error {
		res, err := w.val[pr.in].Set(pr.msg(), readingInterceptors()...)
		touch(res)
		return err
	})
	reg("v.setmask", V, func(w *world, pr *proc) error {
		res, err := w.val[pr.in].Set(pr.msg(), resource.WithUpdatePaths("default_int32", "repeated_int32"))
		touch(res)
		return err
	})
	reg("v.cas", V, func(w *world, pr *proc) error {
		cur := w.val[pr.in].Get()
		res, err := w.val[pr.in].Set(pr.msg(), resource.WithExpectedValue(cur))
		touch(res)
		return err
	})
	reg("v.check", V, func(w *world, pr *proc) error {
		res, err := w.val[pr.in].Set(pr.msg(), resource.WithExpectedCheck(func(old proto.Message) error {
			touch(old)
			if old.(*testproto.TestAllTypes).GetDefaultInt32()%5 == 0 {
				return status.Error(codes.FailedPrecondition, "multiple of five")
			}
			return nil
		}))
		touch(res)
		return err
	})
	pullValue := func(k int, opts ...resource.ReadOption) func(w *world, pr *proc) error {
		return func(w *world, pr *proc) error {
			ctx, cancel := context.WithCancel(w.root)
			consume(pr, w.val[pr.in].Pull(ctx, opts...), cancel, k, readValueChange)
			return nil
		}
	}
	reg("v.pull", V, pullValue(3, resource.WithBackpressure(true)))
	reg("v.pulllossy", V, pullValue(3))
	reg("v.pullupd", V, pullValue(2, resource.WithUpdatesOnly(true), resource.WithBackpressure(true),
		resource.WithReadPaths(&testproto.TestAllTypes{}, "default_int32", "map_string_string")))
	reg("v.pullcancel", V, pullValue(0))

	// ------------------------------------------------------------------ resource.Collection
	reg("c.get", C, func(w *world, pr *proc) error {
		m, _ := w.coll[pr.in].Get(pr.collID())
		touch(m)
		return nil
	})
	reg("c.list", C, func(w *world, pr *proc) error {
		for _, m := range w.coll[pr.in].List(resource.WithInclude(func(id string, item proto.Message) bool {
			touch(item)
			return len(id) > 0
		})) {
			touch(m)
		}
		return nil
	})
	reg("c.add", C, func(w *world, pr *proc) error {
		res, err := w.coll[pr.in].Add(pr.collID(), pr.msg(), resource.WithCreatedCallback(func() {}))
		touch(res)
		return err
	})
	reg("c.gen", C, func(w *world, pr *proc) error {
		m := pr.msg()
		res, err := w.coll[pr.in].Add("", m, resource.WithGenIDIfAbsent(), resource.WithIDCallback(func(id string) {
			m.DefaultString = id
			pr.lastID["coll"] = id
		}))
		touch(res)
		return err
	})
	reg("c.upsert", C, func(w *world, pr *proc) error {
		res, err := w.coll[pr.in].Update(pr.collID(), pr.msg(), append(readingInterceptors(), resource.WithCreateIfAbsent())...)
		touch(res)
		return err
	})
	reg("c.upd", C, func(w *world, pr *proc) error {
		res, err := w.coll[pr.in].Update(pr.collID(), pr.msg(), resource.WithUpdatePaths("default_int32", "map_string_string"))
		touch(res)
		return err
	})
	reg("c.del", C, func(w *world, pr *proc) error {
		id := pr.collID()
		if own := pr.lastID["coll"]; own != "" && pr.rnd.n(2) == 0 {
			id = own
		}
		res, err := w.coll[pr.in].Delete(id, resource.WithAllowMissing(true), resource.WithExpectedCheck(func(old proto.Message) error {
			touch(old)
			return nil
		}))
		touch(res)
		return err
	})
	pullColl := func(k int, opts ...resource.ReadOption) func(w *world, pr *proc) error {
		return func(w *world, pr *proc) error {
			ctx, cancel := context.WithCancel(w.root)
			consume(pr, w.coll[pr.in].Pull(ctx, opts...), cancel, k, readCollectionChange)
			return nil
		}
	}
	reg("c.pull", C, pullColl(4, resource.WithBackpressure(true)))
	reg("c.pulllossy", C, pullColl(4, resource.WithInclude(func(id string, item proto.Message) bool {
		touch(item)
		return id != "c"
	})))
	reg("c.pullcancel", C, pullColl(0))
	reg("c.pullid", C, func(w *world, pr *proc) error {
		ctx, cancel := context.WithCancel(w.root)
		consume(pr, w.coll[pr.in].PullID(ctx, pr.collID(), resource.WithBackpressure(true)), cancel, 2, readValueChange)
		return nil
	})

	// ------------------------------------------------------------------ minibus.Bus
	reg("b.send", B, func(w *world, pr *proc) error {
		ctx, cancel := context.WithTimeout(w.root, 2*time.Millisecond)
		defer cancel()
		if !w.bus[pr.in].Send(ctx, pr.msg()) {
			return errors.New("not sent")
		}
		return nil
	})
	reg("b.sendmany", B, func(w *world, pr *proc) error {
		ctx, cancel := context.WithTimeout(w.root, 2*time.Millisecond)
		defer cancel()
		for i := 0; i < 4; i++ {
			w.bus[pr.in].Send(ctx, pr.msg())
		}
		return nil
	})
	listen := func(k int) func(w *world, pr *proc) error {
		return func(w *world, pr *proc) error {
			ctx, cancel := context.WithCancel(w.root)
			consume(pr, w.bus[pr.in].Listen(ctx), cancel, k, func(ev any) { touch(ev.(proto.Message)) })
			return nil
		}
	}
	reg("b.listen", B, listen(3))
	reg("b.listen1", B, listen(1))
	reg("b.cancel", B, listen(0))

	// ------------------------------------------------------------------ router.Router (through the generated OnOff router)
	reg("r.add", R, func(w *world, pr *proc) error {
		useAny(w.rtr[pr.in].Add(pr.name(), newOnOffClient()))
		return nil
	})
	reg("r.rem", R, func(w *world, pr *proc) error {
		useAny(w.rtr[pr.in].Remove(pr.name()))
		return nil
	})
	reg("r.has", R, func(w *world, pr *proc) error {
		useBool(w.rtr[pr.in].Has(pr.name()))
		return nil
	})
	reg("r.get", R, func(w *world, pr *proc) error {
		name := pr.name()
		cli, err := w.rtr[pr.in].GetOnOffApiClient(name)
		if err != nil {
			return err
		}
		res, err := cli.GetOnOff(w.root, &traits.GetOnOffRequest{Name: name})
		touch(res)
		return err
	})
	reg("r.call", R, func(w *world, pr *proc) error {
		res, err := w.rtrCli[pr.in].GetOnOff(w.root, &traits.GetOnOffRequest{Name: pr.name()})
		touch(res)
		return err
	})
	reg("r.upd", R, func(w *world, pr *proc) error {
		res, err := w.rtrCli[pr.in].UpdateOnOff(w.root, &traits.UpdateOnOffRequest{Name: pr.name(), OnOff: &traits.OnOff{State: traits.OnOff_State(1 + pr.rnd.n(2))}})
		touch(res)
		return err
	})
	reg("r.pull", R, func(w *world, pr *proc) error {
		return consumeStream(w, pr, w.rtrCli[pr.in], pr.name(), 2)
	})

	// ------------------------------------------------------------------ wrapped clients (wrap.ServerToClient)
	reg("w.get", W, func(w *world, pr *proc) error {
		var hd, tr metadata.MD
		res, err := w.wrapCli[pr.in].GetOnOff(w.root, &traits.GetOnOffRequest{Name: "x"}, grpc.Header(&hd), grpc.Trailer(&tr))
		touch(res)
		touchMD(hd)
		touchMD(tr)
		return err
	})
	reg("w.upd", W, func(w *world, pr *proc) error {
		var hd, tr metadata.MD
		res, err := w.wrapCli[pr.in].UpdateOnOff(w.root, &traits.UpdateOnOffRequest{Name: "x", OnOff: &traits.OnOff{State: traits.OnOff_State(1 + pr.rnd.n(2))}},
			grpc.Header(&hd), grpc.Trailer(&tr))
		touch(res)
		touchMD(hd)
		touchMD(tr)
		return err
	})
	reg("w.pull", W, func(w *world, pr *proc) error { return consumeStream(w, pr, w.wrapCli[pr.in], "x", 3) })
	reg("w.pulllazy", W, func(w *world, pr *proc) error { return consumeStream(w, pr, w.wrapCli[pr.in], "lazy", 2) })
	reg("w.pullend", W, func(w *world, pr *proc) error { return consumeStream(w, pr, w.wrapCli[pr.in], "end", 5) })
	reg("w.pullcancel", W, func(w *world, pr *proc) error { return consumeStream(w, pr, w.wrapCli[pr.in], "x", 0) })
	reg("w.precancel", W, func(w *world, pr *proc) error {
		ctx, cancel := context.WithCancel(w.root)
		cancel()
		var hd, tr metadata.MD
		res, err := w.wrapCli[pr.in].GetOnOff(ctx, &traits.GetOnOffRequest{Name: "x"}, grpc.Header(&hd), grpc.Trailer(&tr))
		touch(res)
		touchMD(hd)
		touchMD(tr)
		return err
	})

	// ------------------------------------------------------------------ group.Execute over wrapped clients and a Value
	for kind, strategy := range map[string]group.ExecutionStrategy{
		"g.all": group.ExecutionStrategyAll, "g.most": group.ExecutionStrategyMost, "g.any": group.ExecutionStrategyAny,
		"g.one": group.ExecutionStrategyOne, "g.fast": group.ExecutionStrategyFast, "g.race": group.ExecutionStrategyRace,
	} {
		strategy := strategy
		reg(kind, []string{"wrap", "val"}, func(w *world, pr *proc) error {
			state := traits.OnOff_State(1 + pr.rnd.n(2))
			fail := pr.rnd.n(3) == 0
			members := []group.Member{
				func(ctx context.Context) (proto.Message, error) {
					return w.wrapCli[pr.in].GetOnOff(ctx, &traits.GetOnOffRequest{Name: "x"})
				},
				func(ctx context.Context) (proto.Message, error) {
					return w.wrapCli[pr.in].UpdateOnOff(ctx, &traits.UpdateOnOffRequest{Name: "x", OnOff: &traits.OnOff{State: state}})
				},
				func(ctx context.Context) (proto.Message, error) {
					if fail {
						return nil, status.Error(codes.Unavailable, "member down")
					}
					return w.val[pr.in].Get(), nil
				},
				func(ctx context.Context) (proto.Message, error) {
					return w.val[pr.in].Set(mkMsg(int(state)), readingInterceptors()...)
				},
			}
			res, err := group.Execute(w.root, strategy, members)
			for _, m := range res {
				touch(m)
			}
			return err
		})
	}

	regModels()
}

// consumeStream opens a PullOnOff stream, reads the header, up to k responses, ends the call from the client side
// and reads the trailer once Recv has returned an error (as the gRPC client contract allows).
func consumeStream(w *world, pr *proc, cli traits.OnOffApiClient, name string, k int) error {
	ctx, cancel := context.WithCancel(w.root)
	defer cancel()
	stream, err := cli.PullOnOff(ctx, &traits.PullOnOffRequest{Name: name})
	if err != nil {
		return err
	}
	tm := time.AfterFunc(2*waitEvents, cancel) // ends the call if the responses do not come
	defer tm.Stop()
	if k > 0 {
		hd, _ := stream.Header()
		touchMD(hd)
	}
	var last error
	for i := 0; i < k; i++ {
		res, err := stream.Recv()
		if err != nil {
			last = err
			break
		}
		touch(res)
		pr.events++
	}
	cancel()
	for i := 0; last == nil; i++ {
		res, err := stream.Recv()
		if err != nil {
			last = err
			break
		}
		touch(res)
		if i > 1000 {
			pr.prob = "stream kept delivering after its context was cancelled"
			return nil
		}
	}
	touchMD(stream.Trailer())
	hd, _ := stream.Header()
	touchMD(hd)
	if status.Code(last) == codes.Canceled || errors.Is(last, context.Canceled) || last.Error() == "EOF" {
		return nil
	}
	return last
}

func (pr *proc) traitName() trait.Name {
	return trait.Name([]string{"a", "b", "c", "d", "e", "f", "g"}[pr.rnd.n(7)])
}

func (pr *proc) uniq(prefix string) string { return fmt.Sprintf("%s%d-%d", prefix, pr.p, pr.seq) }
