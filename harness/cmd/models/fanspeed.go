package main

import (
	"context"
	"encoding/json"
	"math"

	"github.com/smart-core-os/sc-api/go/traits"
	"github.com/smart-core-os/sc-golang/pkg/resource"
	"github.com/smart-core-os/sc-golang/pkg/trait/fanspeedpb"
	"github.com/smart-core-os/sc-golang/verifharness/hx"
)

// ---- FanSpeed.tla: [preset, index, pct] with whole-number percentages ------

type absFan struct {
	Preset string `json:"preset"`
	Index  int    `json:"index"`
	Pct    int    `json:"pct"`
}
type absPreset struct {
	Name string `json:"name"`
	Pct  int    `json:"pct"`
}
type fanReq struct {
	Preset   string `json:"preset"`
	Index    int    `json:"index"`
	Pct      int    `json:"pct"`
	Relative bool   `json:"relative"`
}

func absFanOf(f *traits.FanSpeed) absFan {
	p := float64(f.GetPercentage())
	pct := -7777 // not a whole number: outside the specification's domain
	if p == math.Trunc(p) && math.Abs(p) < 1e6 {
		pct = int(p)
	}
	return absFan{Preset: f.GetPreset(), Index: int(f.GetPresetIndex()), Pct: pct}
}
func concFan(a absFan) *traits.FanSpeed {
	return &traits.FanSpeed{Preset: a.Preset, PresetIndex: int32(a.Index), Percentage: float32(a.Pct)}
}

type fanOp struct {
	Op        string `json:"op"`
	Base      string `json:"base"`
	Relative  bool   `json:"relative"`
	SetPreset bool   `json:"setPreset"`
	SetIndex  bool   `json:"setIndex"`
	SetPct    bool   `json:"setPct"`
	Preset    string `json:"preset"`
	Index     int    `json:"index"`
	Pct       int    `json:"pct"`
}
// one constructor option of the configuration, in the order it is handed to NewModel
type fanOpt struct {
	Kind    string      `json:"kind"` // presets | init | clock
	Presets []absPreset `json:"presets"`
	Init    absFan      `json:"init"`
	Via     string      `json:"via"` // init: WithInitialFanSpeed ("model") or WithFanSpeedOption(resource.WithInitialValue) ("resource")
}
type fanWalk struct {
	N   int `json:"n"`
	Cfg struct {
		Opts    []fanOpt    `json:"opts"`
		Custom  bool        `json:"custom"`
		Presets []absPreset `json:"presets"`
		HasInit bool        `json:"hasInit"`
		Init    absFan      `json:"init"`
	} `json:"cfg"`
	Ops []fanOp `json:"ops"`
}
type fanObs struct {
	Model   string      `json:"model"`
	Walk    int         `json:"walk"`
	Step    int         `json:"step"`
	Op      string      `json:"op"`
	Custom  bool        `json:"custom"`
	HasInit bool        `json:"hasInit"`
	Presets []absPreset `json:"presets"`
	Opts    []fanOpt    `json:"opts"` // New: the option sequence
	Seed    absFan      `json:"seed"` // New: the seed value of PullFanSpeed
	Req     fanReq      `json:"req"`
	Pre     absFan      `json:"pre"`
	Post    absFan      `json:"post"`
	Ret     absFan      `json:"ret"`
	Err     string      `json:"err"`
	Panic   string      `json:"panic"`
}

func init() { register("fanspeed", runFanSpeed) }

func runFanSpeed(raw json.RawMessage, out *hx.Out) {
	w := decode[fanWalk](raw)
	var m *fanspeedpb.Model
	o := fanObs{Model: "fanspeed", Walk: w.N, Op: "New", Custom: w.Cfg.Custom, HasInit: w.Cfg.HasInit,
		Presets: w.Cfg.Presets, Opts: w.Cfg.Opts, Pre: w.Cfg.Init, Err: "OK"}
	for i := range o.Opts {
		if o.Opts[i].Presets == nil {
			o.Opts[i].Presets = []absPreset{}
		}
	}
	o.Panic = hx.Catch(func() {
		var opts []resource.Option
		for _, co := range w.Cfg.Opts {
			switch co.Kind {
			case "presets":
				ps := make([]fanspeedpb.Preset, len(co.Presets))
				for i, p := range co.Presets {
					ps[i] = fanspeedpb.Preset{Name: p.Name, Percentage: float32(p.Pct)}
				}
				opts = append(opts, fanspeedpb.WithPresets(ps...))
			case "init":
				if co.Via == "resource" {
					opts = append(opts, fanspeedpb.WithFanSpeedOption(resource.WithInitialValue(concFan(co.Init))))
				} else {
					opts = append(opts, fanspeedpb.WithInitialFanSpeed(concFan(co.Init)))
				}
			case "clock":
				opts = append(opts, resource.WithClock(scriptedClock()))
			default:
				hx.Fatal("fanspeed: unknown option kind %q", co.Kind)
			}
		}
		m = fanspeedpb.NewModel(opts...)
		o.Post = absFanOf(m.FanSpeed())
		seed, _ := pullSeed(func(ctx context.Context) <-chan fanspeedpb.FanSpeedChange { return m.PullFanSpeed(ctx) }, 1)
		o.Seed = absFan{Preset: "<no seed>", Index: -7777, Pct: -7777}
		if len(seed) == 1 {
			o.Seed = absFanOf(seed[0].Value)
		}
	})
	o.Ret = o.Post
	out.Write(o)
	if m == nil {
		return
	}
	srv := fanspeedpb.NewModelServer(m)
	for i, op := range w.Ops {
		o := fanObs{Model: "fanspeed", Walk: w.N, Step: i + 1, Op: op.Op, Custom: w.Cfg.Custom, HasInit: w.Cfg.HasInit,
			Presets: w.Cfg.Presets, Opts: []fanOpt{}, Err: "OK"}
		cur := m.FanSpeed()
		o.Pre = absFanOf(cur)
		msg := &traits.FanSpeed{}
		if op.Base == "current" {
			msg = concFan(o.Pre)
			msg.Direction = cur.Direction
		}
		if op.Base == "preset" {
			msg.Preset = cur.Preset
		}
		if op.SetPreset {
			msg.Preset = op.Preset
		}
		if op.SetIndex {
			msg.PresetIndex = int32(op.Index)
		}
		if op.SetPct {
			msg.Percentage = float32(op.Pct)
		}
		sent := absFanOf(msg)
		o.Req = fanReq{Preset: sent.Preset, Index: sent.Index, Pct: sent.Pct, Relative: op.Relative}
		o.Panic = hx.Catch(func() {
			res, err := srv.UpdateFanSpeed(context.Background(), &traits.UpdateFanSpeedRequest{FanSpeed: msg, Relative: op.Relative})
			o.Err = hx.Code(err)
			if res != nil {
				o.Ret = absFanOf(res)
			}
		})
		o.Post = absFanOf(m.FanSpeed())
		out.Write(o)
	}
}
