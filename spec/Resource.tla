---------------------------- MODULE Resource ----------------------------
(***************************************************************************)
(* Sequential specification of pkg/resource: a Value is a single-message  *)
(* register, a Collection an id -> message map; every public call is one  *)
(* atomic step.  (ResourceConc.tla splits the same calls at the code's    *)
(* critical sections.)  The step functions below are the reference model  *)
(* of C01 (returns / contents / callbacks), C04 (the exact event each     *)
(* write emits and what each kind of subscriber is handed) and C08        *)
(* (include-filtered views).                                              *)
(*                                                                         *)
(* Abstract ids in the byte order of the concrete ids the harness uses:   *)
(* "A" < "a" < "b" < "g" < "g2" < ... < "g10"; "" is the empty id.  "g"   *)
(* is what the scripted random source yields on the first attempt when it *)
(* is not told to collide, "g<k>" what it yields on attempt k (the real   *)
(* generator draws 6+k-1 random bytes on attempt k, ten attempts).        *)
(***************************************************************************)
EXTENDS Msg, TLC

IdOrder == <<"A", "a", "b", "g", "g2", "g3", "g4", "g5", "g6", "g7", "g8", "g9", "g10">>
AllIds == { IdOrder[k] : k \in 1..Len(IdOrder) }
Rank(id) == IF id \in AllIds THEN CHOOSE k \in 1..Len(IdOrder) : IdOrder[k] = id ELSE 0

\* id interceptors the harness can configure on a collection
Icpt(kind, id) == CASE kind = "lower" -> IF id = "A" THEN "a" ELSE id
                    [] kind = "fold"  -> IF id = "" THEN "" ELSE "a"
                    [] OTHER -> id

----------------------------------------------------------------------------
(* Store of a collection: sequence of [id, body, ct] sorted by id.        *)
Ids(st) == { st[k].id : k \in 1..Len(st) }
Has(st, id) == id \in Ids(st)
Item(st, id) == LET k == CHOOSE k \in 1..Len(st) : st[k].id = id IN st[k]
Without(st, id) == SelectSeq(st, LAMBDA it : it.id # id)
Put(st, it) ==
  LET rest == Without(st, it.id)
      lo == SelectSeq(rest, LAMBDA x : Rank(x.id) < Rank(it.id))
      hi == SelectSeq(rest, LAMBDA x : Rank(x.id) > Rank(it.id))
  IN lo \o <<it>> \o hi
Sorted(st) == \A j, k \in 1..Len(st) : j < k => Rank(st[j].id) < Rank(st[k].id)

NoMsg == [has |-> FALSE, v |-> Empty]
Some(x) == [has |-> TRUE, v |-> x]

----------------------------------------------------------------------------
(* Write options (the record the harness turns into WriteOptions):        *)
(*   M, R     update / reset mask                                          *)
(*   mm       WithMoreUpdateMask, applied after WithUpdateMask: added to   *)
(*            a non-nil update mask, ignored when there is none (nil means *)
(*            "all fields" already)                                        *)
(*   W        the resource's writable fields (WithWritableFields; part of  *)
(*            the record because every write is judged against it)         *)
(*   mw, aw   WithMoreWritableFields (added to a non-nil W, ignored when   *)
(*            every field is writable already), WithAllFieldsWritable      *)
(*   ev       expected value  [has, v]                                     *)
(*   chk      0 none; 1 = "stored i must be >= 1", else PermissionDenied   *)
(*   xa, cia  expect-absent, create-if-absent                              *)
(*   am       allow-missing (Delete)                                       *)
(*   gen      generate an id when the id is empty;  first = what the       *)
(*            random source yields first ("A","a","b" collide, "g" fresh)  *)
(*   ib       0 none; 1 = before-interceptor adds the stored i to the      *)
(*            written i (read-modify-write delta)                          *)
(*   ia       0 none; 1 = after-interceptor sets s = 1 iff i changed;      *)
(*            2 = after-interceptor stamps every successful write, also    *)
(*            one that leaves the message as it was: s = (old s mod 3) + 1 *)
(*   wt       -1 none, else the write time                                 *)
(* The id and created callbacks are always installed; the model says how  *)
(* often each fires.                                                      *)

CheckErr(chk, oldmsg) == IF chk = 1 /\ oldmsg.i < 1 THEN "PermissionDenied" ELSE "OK"

\* the written message after the before-interceptor
Before(o, oldmsg, wr) == IF o.ib = 1 THEN [wr EXCEPT !.i = wr.i + oldmsg.i] ELSE wr
After(o, oldmsg, new) == IF o.ia = 1 /\ oldmsg.i # new.i THEN [new EXCEPT !.s = 1]
                         ELSE IF o.ia = 2 THEN [new EXCEPT !.s = (oldmsg.s % 3) + 1] ELSE new

\* the update mask a write really uses
\* (fieldmaskpb.Union normalises: a path listed together with one of its ancestors disappears,
\*  even an invalid one)
RECURSIVE SetToSeq(_)
SetToSeq(S) == IF S = {} THEN <<>> ELSE LET x == CHOOSE y \in S : TRUE IN <<x>> \o SetToSeq(S \ {x})
EffM(o) == IF o.M.nil \/ o.mm.nil THEN o.M
           ELSE Mask(SetToSeq(NormSet(PathSet(o.M) \cup PathSet(o.mm))))

\* the writable fields a write is judged against
EffW(o) == IF o.aw \/ o.W.nil THEN NilMask
           ELSE Mask(SetToSeq(NormSet(PathSet(o.W) \cup PathSet(o.mw))))

\* An update mask naming a read-only field is rejected; one naming a parent of writable
\* fields is settled by neither C01 nor C05 ("Unsettled": the trace use accepts a
\* rejection that changes nothing and otherwise leaves the line unjudged).
MaskErr(o) == IF ~o.M.nil /\ ~MaskValid(EffM(o)) THEN "InvalidArgument"
              ELSE IF ~o.M.nil /\ (\E p \in PathSet(EffM(o)) : ClearlyReadOnly(p, EffW(o))) THEN "InvalidArgument"
              ELSE IF ~o.M.nil /\ (\E p \in PathSet(EffM(o)) : ~ClearlyWritable(p, EffW(o))) THEN "Unsettled"
              ELSE IF ~o.R.nil /\ ~MaskValid(o.R) THEN "Internal" ELSE "OK"

\* precondition + merge on an existing (or freshly created empty) message
\* returns [err, new]
Change(o, oldmsg, wr) ==
  IF o.ev.has /\ o.ev.v # oldmsg THEN [err |-> "FailedPrecondition", new |-> oldmsg]
  ELSE IF CheckErr(o.chk, oldmsg) # "OK" THEN [err |-> CheckErr(o.chk, oldmsg), new |-> oldmsg]
  ELSE LET w2 == Before(o, oldmsg, wr)
           merged == UpdateResult(oldmsg, w2, EffM(o), EffW(o), o.R)
       IN [err |-> "OK", new |-> After(o, oldmsg, merged)]

WriteTime(o, now) == IF o.wt >= 0 THEN o.wt ELSE now

\* id generation: ten candidates; the first usable one (its intercepted form is
\* not a key of the store) is taken, in its intercepted form
Candidates(o) == <<o.first, "g2", "g3", "g4", "g5", "g6", "g7", "g8", "g9", "g10">>
GenId(st, o, icpt) ==
  LET cs == Candidates(o)
      ok == { k \in 1..Len(cs) : ~Has(st, Icpt(icpt, cs[k])) }
  IN IF ok = {} THEN [err |-> "Aborted", id |-> ""]
     ELSE [err |-> "OK", id |-> Icpt(icpt, cs[CHOOSE k \in ok : \A j \in ok : k <= j])]

Fail(st, e, idcb) == [err |-> e, ret |-> NoMsg, post |-> st, idcb |-> idcb, ccb |-> 0, ev |-> <<>>]

(* Collection.Update (Add = Update with xa and cia).                      *)
CollUpdate(st, now, icpt, rawid, wr, o) ==
  LET id0 == Icpt(icpt, rawid) IN
  IF MaskErr(o) # "OK" THEN Fail(st, MaskErr(o), <<>>)
  ELSE
  LET g == IF id0 = "" /\ o.gen THEN GenId(st, o, icpt) ELSE [err |-> "OK", id |-> id0]
      idcb == IF id0 = "" /\ o.gen /\ g.err = "OK" THEN <<g.id>> ELSE <<>>
      id == g.id
  IN
  IF g.err # "OK" THEN Fail(st, g.err, <<>>)
  ELSE IF Has(st, id) /\ o.xa THEN Fail(st, "AlreadyExists", idcb)
  ELSE IF ~Has(st, id) /\ ~o.cia THEN Fail(st, "NotFound", idcb)
  ELSE
  LET created == ~Has(st, id)
      oldmsg == IF created THEN Empty ELSE Item(st, id).body
      ch == Change(o, oldmsg, wr)
      ccb == IF created THEN 1 ELSE 0
  IN
  IF ch.err # "OK" THEN [Fail(st, ch.err, idcb) EXCEPT !.ccb = ccb]
  ELSE [err |-> "OK", ret |-> Some(ch.new),
        post |-> Put(st, [id |-> id, body |-> ch.new, ct |-> WriteTime(o, now)]),
        idcb |-> idcb, ccb |-> ccb,
        ev |-> << [id |-> id, type |-> IF created THEN "ADD" ELSE "UPDATE",
                   old |-> IF created THEN NoMsg ELSE Some(oldmsg), new |-> Some(ch.new),
                   ct |-> WriteTime(o, now), seed |-> FALSE, lastSeed |-> FALSE] >>]

(* Collection.Delete: returns the removed body; a failed precondition      *)
(* hands back the current body together with the error.                   *)
CollDelete(st, now, icpt, rawid, o) ==
  LET id == Icpt(icpt, rawid) IN
  IF ~Has(st, id) THEN (IF o.am THEN [Fail(st, "OK", <<>>) EXCEPT !.ret = NoMsg] ELSE Fail(st, "NotFound", <<>>))
  ELSE LET body == Item(st, id).body IN
  IF CheckErr(o.chk, body) # "OK" THEN [Fail(st, CheckErr(o.chk, body), <<>>) EXCEPT !.ret = Some(body)]
  ELSE IF o.ev.has /\ o.ev.v # body THEN [Fail(st, "FailedPrecondition", <<>>) EXCEPT !.ret = Some(body)]
  ELSE [err |-> "OK", ret |-> Some(body), post |-> Without(st, id), idcb |-> <<>>, ccb |-> 0,
        ev |-> << [id |-> id, type |-> "REMOVE", old |-> Some(body), new |-> NoMsg,
                   ct |-> WriteTime(o, now), seed |-> FALSE, lastSeed |-> FALSE] >>]

CollGet(st, icpt, rawid, mask) ==
  LET id == Icpt(icpt, rawid) IN
  IF Has(st, id) THEN Some(Project(Item(st, id).body, mask)) ELSE NoMsg

\* include predicates are truth tables: inc[id][class], class = "none" for an
\* absent value, else the value's i field as "i0","i1","i2" (see IncClass)
IncClass(m) == IF ~m.has THEN "none" ELSE IF m.v.i = 0 THEN "i0" ELSE IF m.v.i = 1 THEN "i1" ELSE "i2"
\* an absent value is never part of the filtered collection, whatever the
\* predicate says about it (the tables still have a "none" column so that
\* predicates true for absent values are generated and handed to the code)
Included(inc, id, m) == inc.nil \/ (m.has /\ inc.t[id][IncClass(m)])

CollList(st, mask, inc) ==
  LET keep == SelectSeq(st, LAMBDA it : Included(inc, it.id, Some(it.body)))
  IN [k \in 1..Len(keep) |-> [id |-> keep[k].id, body |-> Project(keep[k].body, mask)]]

(* Value: [has, v, ct]                                                     *)
ValSet(val, now, wr, o) ==
  IF MaskErr(o) # "OK" THEN [err |-> MaskErr(o), ret |-> NoMsg, post |-> val, ev |-> <<>>]
  ELSE
  LET oldmsg == IF val.has THEN val.v ELSE Empty
      \* with no stored message the expected value is compared with "nothing"
      ch == IF ~val.has /\ o.ev.has THEN [err |-> "FailedPrecondition", new |-> oldmsg]
            ELSE Change(o, oldmsg, wr)
  IN IF ch.err # "OK" THEN [err |-> ch.err, ret |-> NoMsg, post |-> val, ev |-> <<>>]
     ELSE [err |-> "OK", ret |-> Some(ch.new),
           post |-> [has |-> TRUE, v |-> ch.new, ct |-> WriteTime(o, now)],
           ev |-> << [id |-> "", type |-> "UPDATE", old |-> NoMsg, new |-> Some(ch.new),
                      ct |-> WriteTime(o, now), seed |-> FALSE, lastSeed |-> FALSE] >>]

----------------------------------------------------------------------------
(* Subscribers (C04, C08, C16 stream clause).  A subscription sees first  *)
(* the seed (unless updates-only), then one raw event per successful      *)
(* write; what it is handed depends on its read mask, include predicate   *)
(* and the resource's equivalence.                                        *)

ProjOpt(m, mask) == IF m.has THEN Some(Project(m.v, mask)) ELSE NoMsg

\* seed of a collection subscription: the included items in id order, all
\* flagged seed, exactly the final one flagged last-seed, stored change times
CollSeed(st, sub) ==
  IF sub.updatesOnly THEN <<>>
  ELSE LET keep == SelectSeq(st, LAMBDA it : Included(sub.inc, it.id, Some(it.body)))
       IN [k \in 1..Len(keep) |->
            [id |-> keep[k].id, type |-> "ADD", old |-> NoMsg, new |-> Some(Project(keep[k].body, sub.mask)),
             ct |-> keep[k].ct, seed |-> TRUE, lastSeed |-> (k = Len(keep))]]

\* what a collection subscriber is handed for one raw event (<<>> or <<e>>)
CollDeliver(e, sub, equiv) ==
  LET oi == Included(sub.inc, e.id, e.old)
      ni == Included(sub.inc, e.id, e.new)
      e1 == CASE sub.inc.nil -> <<e>>
              [] oi /\ ni   -> <<e>>
              [] ~oi /\ ni  -> <<[e EXCEPT !.type = "ADD", !.old = NoMsg]>>
              [] oi /\ ~ni  -> <<[e EXCEPT !.type = "REMOVE", !.new = NoMsg]>>
              [] OTHER      -> <<>>
  IN IF e1 = <<>> THEN <<>>
     ELSE LET f == [e1[1] EXCEPT !.old = ProjOpt(e1[1].old, sub.mask), !.new = ProjOpt(e1[1].new, sub.mask)]
          IN IF equiv /\ f.old = f.new THEN <<>> ELSE <<f>>

(* Collection.PullID(id): the subscriber of a single item is handed the value events of that item only (after  *)
(* include translation, read mask and equivalence, which PullID passes on to Pull); the subscription ends when  *)
(* the item is removed -- not when any other item is.  sub.pid is the (intercepted) id, "" for an ordinary Pull. *)
AsValueEvent(e) == [id |-> "", type |-> "UPDATE", old |-> NoMsg, new |-> e.new, ct |-> e.ct, seed |-> e.seed, lastSeed |-> e.lastSeed]
PidSeed(st, sub) == LET all == CollSeed(st, sub)  mine == SelectSeq(all, LAMBDA e : e.id = sub.pid)
                    IN [k \in 1..Len(mine) |-> AsValueEvent(mine[k])]
\* [deliv, closes] for one raw event
PidDeliver(e, sub, equiv) ==
  LET d == CollDeliver(e, sub, equiv) IN
  IF d = <<>> \/ d[1].id # sub.pid THEN [deliv |-> <<>>, closes |-> FALSE]
  ELSE IF d[1].type = "REMOVE" THEN [deliv |-> <<>>, closes |-> TRUE]
  ELSE [deliv |-> <<AsValueEvent(d[1])>>, closes |-> FALSE]

ValSeed(val, sub) ==
  IF sub.updatesOnly \/ ~val.has THEN <<>>
  ELSE << [id |-> "", type |-> "UPDATE", old |-> NoMsg, new |-> Some(Project(val.v, sub.mask)),
           ct |-> val.ct, seed |-> TRUE, lastSeed |-> TRUE] >>
\* held = what the subscriber currently holds ([has, v], already projected)
ValDeliver(e, held, sub, equiv) ==
  LET f == [e EXCEPT !.new = ProjOpt(e.new, sub.mask)]
  IN IF equiv /\ held = f.new THEN <<>> ELSE <<f>>

\* folding a collection event stream into a view (sorted [id, body] list)
ViewPut(view, id, body) ==
  LET rest == SelectSeq(view, LAMBDA x : x.id # id)
      lo == SelectSeq(rest, LAMBDA x : Rank(x.id) < Rank(id))
      hi == SelectSeq(rest, LAMBDA x : Rank(x.id) > Rank(id))
  IN lo \o <<[id |-> id, body |-> body]>> \o hi
ViewApply(view, e) == IF e.type = "REMOVE" THEN SelectSeq(view, LAMBDA x : x.id # e.id)
                      ELSE ViewPut(view, e.id, e.new.v)
RECURSIVE Fold(_, _)
Fold(view, evs) == IF evs = <<>> THEN view ELSE Fold(ViewApply(view, Head(evs)), Tail(evs))
=============================================================================
