package main

import (
	"context"
	"reflect"

	"google.golang.org/grpc"
	"google.golang.org/protobuf/proto"

	"github.com/smart-core-os/sc-api/go/traits"
	"github.com/smart-core-os/sc-api/go/types"
	"github.com/smart-core-os/sc-golang/pkg/trait/airtemperaturepb"
	"github.com/smart-core-os/sc-golang/pkg/trait/countpb"
	"github.com/smart-core-os/sc-golang/pkg/trait/emergencypb"
	"github.com/smart-core-os/sc-golang/pkg/trait/lightpb"
	"github.com/smart-core-os/sc-golang/pkg/trait/speakerpb"
)

// The memory devices (pkg/trait/*/memory.go) are gRPC servers around one resource.Value: the message handed to a
// write is the request, what is handed out are responses and the responses sent on a server stream.

// fakeStream is the server side of a server-streaming call: Send hands the response to the collector.
type fakeStream[T any] struct {
	grpc.ServerStream
	ctx context.Context
	ch  chan *T
}

func (s *fakeStream[T]) Context() context.Context { return s.ctx }
func (s *fakeStream[T]) Send(m *T) error {
	select {
	case s.ch <- m:
		return nil
	case <-s.ctx.Done():
		return s.ctx.Err()
	}
}

// stream runs a Pull method against a fake stream and returns the channel of responses.
func stream[T any](ctx context.Context, call func(s *fakeStream[T]) error) chan *T {
	s := &fakeStream[T]{ctx: ctx, ch: make(chan *T)}
	go func() {
		defer close(s.ch)
		_ = call(s)
	}()
	return s.ch
}

// memoryOps: Get / Update / Pull of a memory device.  mkUpdate builds the update request, mkPull the pull request.
func memoryOps[M proto.Message](names [3]string, z M, get func(e *env, masked bool) (M, error),
	update func(e *env) (proto.Message, M, error), pull func(e *env, ctx context.Context) any) []op {
	return []op{
		{name: names[0], ro: true, run: func(e *env) error {
			res, err := get(e, e.flip(25))
			e.out("result", res)
			return err
		}},
		{name: names[1], run: func(e *env) error {
			_, res, err := update(e)
			e.out("result", res)
			return err
		}},
		{name: names[1], run: func(e *env) error {
			_, res, err := update(e)
			e.out("result", res)
			return err
		}},
		{name: names[2], ro: true, run: func(e *env) error {
			return subscribe(e, "response", func(ctx context.Context) any { return pull(e, ctx) })
		}},
		cancelOp(names[2]),
	}
}

func init() {
	bg := context.Background()
	register(target{name: "memory-airtemperature", pkg: "airtemperaturepb", typ: reflect.TypeOf(&airtemperaturepb.MemoryDevice{}),
		notOps: []string{"Register"},
		build: func(e *env) *instance {
			d := airtemperaturepb.NewMemoryDevice()
			z := &traits.AirTemperature{}
			get := func(e *env, masked bool) (*traits.AirTemperature, error) {
				req := &traits.GetAirTemperatureRequest{Name: "x"}
				if masked {
					req.ReadMask = randMask(e.r, z)
				}
				return d.GetAirTemperature(bg, req)
			}
			return &instance{
				state: func() []proto.Message {
					m, _ := d.GetAirTemperature(bg, &traits.GetAirTemperatureRequest{})
					return []proto.Message{m}
				},
				ops: memoryOps([3]string{"GetAirTemperature", "UpdateAirTemperature", "PullAirTemperature"}, z, get,
					func(e *env) (proto.Message, *traits.AirTemperature, error) {
						req := &traits.UpdateAirTemperatureRequest{Name: "x", State: newMsg[*traits.AirTemperature](e, 50)}
						if e.flip(40) {
							req.UpdateMask = randMask(e.r, z)
						}
						e.in(req)
						res, err := d.UpdateAirTemperature(bg, req)
						return req, res, err
					},
					func(e *env, ctx context.Context) any {
						req := &traits.PullAirTemperatureRequest{Name: "x", UpdatesOnly: e.flip(25)}
						if e.flip(25) {
							req.ReadMask = randMask(e.r, z)
						}
						return stream(ctx, func(s *fakeStream[traits.PullAirTemperatureResponse]) error { return d.PullAirTemperature(req, s) })
					})}
		}})
	register(target{name: "memory-count", pkg: "countpb", typ: reflect.TypeOf(&countpb.MemoryDevice{}),
		build: func(e *env) *instance {
			d := countpb.NewMemoryDevice()
			z := &traits.Count{}
			get := func(e *env, masked bool) (*traits.Count, error) {
				req := &traits.GetCountRequest{Name: "x"}
				if masked {
					req.ReadMask = randMask(e.r, z)
				}
				return d.GetCount(bg, req)
			}
			ops := memoryOps([3]string{"GetCount", "UpdateCount", "PullCounts"}, z, get,
				func(e *env) (proto.Message, *traits.Count, error) {
					req := &traits.UpdateCountRequest{Name: "x", Count: newMsg[*traits.Count](e, 60), Delta: e.flip(40)}
					if e.flip(40) {
						req.UpdateMask = randMask(e.r, z)
					}
					e.in(req)
					res, err := d.UpdateCount(bg, req)
					return req, res, err
				},
				func(e *env, ctx context.Context) any {
					req := &traits.PullCountsRequest{Name: "x", UpdatesOnly: e.flip(25)}
					if e.flip(25) {
						req.ReadMask = randMask(e.r, z)
					}
					return stream(ctx, func(s *fakeStream[traits.PullCountsResponse]) error { return d.PullCounts(req, s) })
				})
			ops = append(ops, op{name: "ResetCount", run: func(e *env) error {
				req := newMsg[*traits.ResetCountRequest](e, 60)
				e.in(req)
				res, err := d.ResetCount(bg, req)
				e.out("result", res)
				return err
			}})
			return &instance{ops: ops,
				state: func() []proto.Message { m, _ := d.GetCount(bg, &traits.GetCountRequest{}); return []proto.Message{m} }}
		}})
	register(target{name: "memory-emergency", pkg: "emergencypb", typ: reflect.TypeOf(&emergencypb.MemoryDevice{}),
		notOps: []string{"Register"},
		build: func(e *env) *instance {
			d := emergencypb.NewMemoryDevice()
			z := &traits.Emergency{}
			get := func(e *env, masked bool) (*traits.Emergency, error) {
				req := &traits.GetEmergencyRequest{Name: "x"}
				if masked {
					req.ReadMask = randMask(e.r, z)
				}
				return d.GetEmergency(bg, req)
			}
			return &instance{
				state: func() []proto.Message {
					m, _ := d.GetEmergency(bg, &traits.GetEmergencyRequest{})
					return []proto.Message{m}
				},
				ops: memoryOps([3]string{"GetEmergency", "UpdateEmergency", "PullEmergency"}, z, get,
					func(e *env) (proto.Message, *traits.Emergency, error) {
						req := &traits.UpdateEmergencyRequest{Name: "x", Emergency: newMsg[*traits.Emergency](e, 60)}
						if e.flip(40) {
							req.UpdateMask = randMask(e.r, z)
						}
						e.in(req)
						res, err := d.UpdateEmergency(bg, req)
						return req, res, err
					},
					func(e *env, ctx context.Context) any {
						req := &traits.PullEmergencyRequest{Name: "x", UpdatesOnly: e.flip(25)}
						if e.flip(25) {
							req.ReadMask = randMask(e.r, z)
						}
						return stream(ctx, func(s *fakeStream[traits.PullEmergencyResponse]) error { return d.PullEmergency(req, s) })
					})}
		}})
	register(target{name: "memory-speaker", pkg: "speakerpb", typ: reflect.TypeOf(&speakerpb.MemoryDevice{}),
		notOps: []string{"Register"},
		build: func(e *env) *instance {
			d := speakerpb.NewMemoryDevice(newMsg[*types.AudioLevel](e, 60))
			z := &types.AudioLevel{}
			get := func(e *env, masked bool) (*types.AudioLevel, error) {
				req := &traits.GetSpeakerVolumeRequest{Name: "x"}
				if masked {
					req.ReadMask = randMask(e.r, z)
				}
				return d.GetVolume(bg, req)
			}
			return &instance{
				state: func() []proto.Message {
					m, _ := d.GetVolume(bg, &traits.GetSpeakerVolumeRequest{})
					return []proto.Message{m}
				},
				ops: memoryOps([3]string{"GetVolume", "UpdateVolume", "PullVolume"}, z, get,
					func(e *env) (proto.Message, *types.AudioLevel, error) {
						req := &traits.UpdateSpeakerVolumeRequest{Name: "x", Volume: newMsg[*types.AudioLevel](e, 60), Delta: e.flip(40)}
						if e.flip(40) {
							req.UpdateMask = randMask(e.r, z)
						}
						e.in(req)
						res, err := d.UpdateVolume(bg, req)
						return req, res, err
					},
					func(e *env, ctx context.Context) any {
						req := &traits.PullSpeakerVolumeRequest{Name: "x", UpdatesOnly: e.flip(25)}
						if e.flip(25) {
							req.ReadMask = randMask(e.r, z)
						}
						return stream(ctx, func(s *fakeStream[traits.PullSpeakerVolumeResponse]) error { return d.PullVolume(req, s) })
					})}
		}})
	register(target{name: "memory-light", pkg: "lightpb", typ: reflect.TypeOf(&lightpb.MemoryDevice{}),
		build: func(e *env) *instance {
			d := lightpb.NewMemoryDevice()
			z := &traits.Brightness{}
			get := func(e *env, masked bool) (*traits.Brightness, error) {
				req := &traits.GetBrightnessRequest{Name: "x"}
				if masked {
					req.ReadMask = randMask(e.r, z)
				}
				return d.GetBrightness(bg, req)
			}
			return &instance{
				state: func() []proto.Message {
					m, _ := d.GetBrightness(bg, &traits.GetBrightnessRequest{})
					return []proto.Message{m}
				},
				ops: memoryOps([3]string{"GetBrightness", "UpdateBrightness", "PullBrightness"}, z, get,
					func(e *env) (proto.Message, *traits.Brightness, error) {
						b := newMsg[*traits.Brightness](e, 50)
						// no tweening: a tween keeps writing from its own goroutine for its whole duration
						b.BrightnessTween = nil
						req := &traits.UpdateBrightnessRequest{Name: "x", Brightness: b, Delta: e.flip(30)}
						e.in(req)
						res, err := d.UpdateBrightness(bg, req)
						return req, res, err
					},
					func(e *env, ctx context.Context) any {
						req := &traits.PullBrightnessRequest{Name: "x", UpdatesOnly: e.flip(25), ExcludeRamping: e.flip(30)}
						if e.flip(25) {
							req.ReadMask = randMask(e.r, z)
						}
						return stream(ctx, func(s *fakeStream[traits.PullBrightnessResponse]) error { return d.PullBrightness(req, s) })
					})}
		}})
}
