// Command harness replays specification-generated cases against the real
// sc-golang code (built from the working tree with -tags verif) and records
// what the code did, one JSON line per observation.
package main

import (
	"fmt"
	"os"
	"sort"
)

var commands = map[string]func(){}

func register(name string, f func()) { commands[name] = f }

func main() {
	if len(os.Args) < 2 || commands[os.Args[1]] == nil {
		names := make([]string, 0, len(commands))
		for n := range commands {
			names = append(names, n)
		}
		sort.Strings(names)
		fmt.Fprintln(os.Stderr, "usage: harness <command> [-cases f] [-out f]; commands:", names)
		os.Exit(3)
	}
	commands[os.Args[1]]()
}
