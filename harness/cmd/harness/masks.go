package main

import (
	"context"
	"github.com/smart-core-os/sc-api/go/traits"
	"google.golang.org/protobuf/types/known/timestamppb"
	"strings"
	"time"

	"google.golang.org/protobuf/proto"

	"github.com/smart-core-os/sc-golang/internal/testproto"
	"google.golang.org/protobuf/types/known/fieldmaskpb"

	"github.com/smart-core-os/sc-golang/pkg/masks"
	"github.com/smart-core-os/sc-golang/pkg/resource"
	"github.com/smart-core-os/sc-golang/verifharness/hx"
	"github.com/smart-core-os/sc-golang/verifharness/mini"
)

// maskCase is one input tuple of spec/Masks.tla: either an update
// (old, wr, M, W, W2, allW, R) or a projection (msg, mask).
type maskCase struct {
	K    string    `json:"k"` // "upd" | "proj"
	Old  mini.Msg  `json:"old"`
	Wr   mini.Msg  `json:"wr"`
	M    mini.Mask `json:"M"`
	W    mini.Mask `json:"W"`
	W2   mini.Mask `json:"W2"`
	AllW bool      `json:"allW"`
	R    mini.Mask `json:"R"`
	Msg  mini.Msg  `json:"msg"`
	Mask mini.Mask `json:"mask"`
}

type updObs struct {
	K     string    `json:"k"`
	Via   string    `json:"via"`
	Old   mini.Msg  `json:"old"`
	Wr    mini.Msg  `json:"wr"`
	M     mini.Mask `json:"M"`
	W     mini.Mask `json:"W"` // effective writable mask: union(W, W2), nil if allW or W nil
	R     mini.Mask `json:"R"`
	Err   string    `json:"err"`
	Res   mini.Msg  `json:"res"`  // returned message (Empty on error)
	Post  mini.Msg  `json:"post"` // stored message afterwards
	Panic string    `json:"panic"`
}

type projObs struct {
	K     string    `json:"k"`
	Via   string    `json:"via"`
	Msg   mini.Msg  `json:"msg"`
	Mask  mini.Mask `json:"mask"`
	Valid string    `json:"valid"` // code of ResponseFilter.Validate
	Res   mini.Msg  `json:"res"`
	Post  mini.Msg  `json:"post"` // the stored / input message after the read
	Panic string    `json:"panic"`
}

func init() { register("masks", runMasks) }

func effectiveW(c maskCase) mini.Mask {
	if c.AllW || c.W.Nil {
		return mini.Mask{Nil: true, Paths: [][]string{}}
	}
	w := mini.Mask{Paths: append([][]string{}, c.W.Paths...)}
	if !c.W2.Nil {
		w.Paths = append(w.Paths, c.W2.Paths...)
	}
	return w
}

func writeOpts(c maskCase) []resource.WriteOption {
	var o []resource.WriteOption
	if !c.M.Nil {
		o = append(o, resource.WithUpdateMask(mini.ConcMask(c.M)))
	}
	if !c.R.Nil {
		o = append(o, resource.WithResetMask(mini.ConcMask(c.R)))
	}
	if !c.W2.Nil {
		if len(c.W2.Paths)%2 == 1 && len(c.Old.R)%2 == 0 {
			o = append(o, resource.WithMoreWritablePaths(mini.ConcMask(c.W2).Paths...))
		} else {
			o = append(o, resource.WithMoreWritableFields(mini.ConcMask(c.W2)))
		}
	}
	if c.AllW {
		o = append(o, resource.WithAllFieldsWritable())
	}
	return o
}

func runMasks() {
	cases := hx.ReadCases[maskCase](hx.Arg("-cases", "cases.ndjson"))
	out := hx.NewOut(hx.Arg("-out", "obs.ndjson"))
	defer out.Close()
	for _, c := range cases {
		switch c.K {
		case "upd":
			runUpd(c, out)
		case "names":
			runNames(c, out)
		case "rnames":
			runReadNames(c, out)
		case "proj":
			runProj(c, out)
		}
	}
}

func runUpd(c maskCase, out *hx.Out) {
	w := effectiveW(c)
	base := updObs{K: "upd", Old: c.Old, Wr: c.Wr, M: c.M, W: w, R: c.R, Res: mini.Empty(), Post: c.Old}

	// 1. the FieldUpdater on its own (no W2/allW there: the effective mask is given directly)
	{
		o := base
		o.Via = "updater"
		o.Panic = hx.Catch(func() {
			// the writable mask is handed over the way pkg/resource does it: as a fieldmaskpb.Union
			var wm *fieldmaskpb.FieldMask
			if !w.Nil {
				wm = fieldmaskpb.Union(mini.ConcMask(w), nil)
			}
			opts := []masks.FieldUpdaterOption{masks.WithUpdateMask(mini.ConcMask(c.M)), masks.WithWritableFields(wm)}
			if !c.R.Nil {
				opts = append(opts, masks.WithResetMask(mini.ConcMask(c.R)))
			}
			u := masks.NewFieldUpdater(opts...)
			src := mini.Conc(c.Wr)
			err := u.Validate(src)
			o.Err = hx.Code(err)
			if err == nil {
				dst := mini.Conc(c.Old)
				u.Merge(dst, src)
				o.Res = mini.Abs(dst)
				o.Post = o.Res
			}
		})
		out.Write(o)
	}
	// 2. through Value.Set
	{
		var again *resource.Value
		o := base
		o.Via = "value"
		o.Panic = hx.Catch(func() {
			ro := []resource.Option{resource.WithInitialValue(mini.Conc(c.Old))}
			if !c.W.Nil {
				ro = append(ro, resource.WithWritableFields(mini.ConcMask(c.W)))
			}
			v := resource.NewValue(ro...)
			res, err := v.Set(mini.Conc(c.Wr), writeOpts(c)...)
			o.Err = hx.Code(err)
			if err == nil {
				o.Res = mini.Abs(res)
			}
			o.Post = mini.Abs(v.Get())
			again = v
		})
		out.Write(o)
		// the same write once more on the same Value, this time without the extra writable fields: what one
		// call was granted is not the resource's from then on
		if again != nil && o.Panic == "" && !c.W.Nil && !c.W2.Nil && !c.AllW {
			o2 := base
			o2.Via = "value.again"
			o2.Old, o2.Post = o.Post, o.Post
			o2.W = mini.Mask{Paths: append([][]string{}, c.W.Paths...)}
			c2 := c
			c2.W2 = mini.Mask{Nil: true}
			o2.Panic = hx.Catch(func() {
				res, err := again.Set(mini.Conc(c.Wr), writeOpts(c2)...)
				o2.Err = hx.Code(err)
				if err == nil {
					o2.Res = mini.Abs(res)
				}
				o2.Post = mini.Abs(again.Get())
			})
			out.Write(o2)
		}
	}
	// 2b. through the first Value.Set of a Value that was given no initial value (nothing stored = the empty
	// message as far as the masks are concerned)
	if proto.Equal(mini.Conc(c.Old), &testproto.TestAllTypes{}) {
		o := base
		o.Via = "value0"
		o.Panic = hx.Catch(func() {
			var ro []resource.Option
			if !c.W.Nil {
				ro = append(ro, resource.WithWritableFields(mini.ConcMask(c.W)))
			}
			v := resource.NewValue(ro...)
			res, err := v.Set(mini.Conc(c.Wr), writeOpts(c)...)
			o.Err = hx.Code(err)
			if err == nil {
				o.Res = mini.Abs(res)
			}
			if got := v.Get(); got != nil {
				o.Post = mini.Abs(got)
			}
		})
		out.Write(o)
	}
	// 2c. through Collection.Update creating the item (create-if-absent on an absent id): a created item starts
	// from nothing and obeys the masks like any other write
	if proto.Equal(mini.Conc(c.Old), &testproto.TestAllTypes{}) {
		o := base
		o.Via = "collection.create"
		o.Panic = hx.Catch(func() {
			var ro []resource.Option
			if !c.W.Nil {
				ro = append(ro, resource.WithWritableFields(mini.ConcMask(c.W)))
			}
			col := resource.NewCollection(ro...)
			res, err := col.Update("a", mini.Conc(c.Wr), append(writeOpts(c), resource.WithCreateIfAbsent())...)
			o.Err = hx.Code(err)
			if err == nil {
				o.Res = mini.Abs(res)
			}
			if got, ok := col.Get("a"); ok {
				o.Post = mini.Abs(got)
			}
		})
		out.Write(o)
	}
	// 3. through Collection.Update
	{
		o := base
		o.Via = "collection"
		o.Panic = hx.Catch(func() {
			ro := []resource.Option{resource.WithInitialRecord("a", mini.Conc(c.Old))}
			if !c.W.Nil {
				ro = append(ro, resource.WithWritableFields(mini.ConcMask(c.W)))
			}
			col := resource.NewCollection(ro...)
			res, err := col.Update("a", mini.Conc(c.Wr), writeOpts(c)...)
			o.Err = hx.Code(err)
			if err == nil {
				o.Res = mini.Abs(res)
			}
			got, _ := col.Get("a")
			o.Post = mini.Abs(got)
		})
		out.Write(o)
	}
}

func runProj(c maskCase, out *hx.Out) {
	fm := mini.ConcMask(c.Mask)
	valid := hx.Code(masks.NewResponseFilter(masks.WithFieldMask(fm)).Validate(mini.Conc(c.Msg)))
	base := projObs{K: "proj", Msg: c.Msg, Mask: c.Mask, Valid: valid, Res: mini.Empty(), Post: c.Msg}
	emit := func(via string, f func(o *projObs)) {
		o := base
		o.Via = via
		o.Panic = hx.Catch(func() { f(&o) })
		out.Write(o)
	}
	emit("filterclone", func(o *projObs) {
		in := mini.Conc(c.Msg)
		res := masks.NewResponseFilter(masks.WithFieldMask(fm)).FilterClone(in)
		o.Res, o.Post = mini.Abs(res), mini.Abs(in)
	})
	emit("filter", func(o *projObs) {
		in := mini.Conc(c.Msg)
		masks.NewResponseFilter(masks.WithFieldMask(fm)).Filter(in)
		o.Res = mini.Abs(in) // Filter changes its argument by contract
	})
	emit("value.get", func(o *projObs) {
		v := resource.NewValue(resource.WithInitialValue(mini.Conc(c.Msg)))
		res := v.Get(resource.WithReadMask(fm))
		o.Res, o.Post = mini.Abs(res), mini.Abs(v.Get())
	})
	// read options are applied in order, the last mask given is the one that counts (nil included)
	emit("value.get.lastwins", func(o *projObs) {
		v := resource.NewValue(resource.WithInitialValue(mini.Conc(c.Msg)))
		other := mini.ConcMask(mini.Mask{Paths: [][]string{{"s"}}})
		res := v.Get(resource.WithReadMask(other), resource.WithReadMask(fm))
		o.Res, o.Post = mini.Abs(res), mini.Abs(v.Get())
	})
	emit("collection.list.lastwins", func(o *projObs) {
		col := resource.NewCollection(resource.WithInitialRecord("a", mini.Conc(c.Msg)))
		res := col.List(resource.WithReadPaths(&testproto.TestAllTypes{}, "default_int32"), resource.WithReadMask(fm))
		if len(res) == 1 {
			o.Res = mini.Abs(res[0])
		} else {
			o.Res.X = append(o.Res.X, "<list-len>")
		}
		after, _ := col.Get("a")
		o.Post = mini.Abs(after)
	})
	emit("collection.get", func(o *projObs) {
		col := resource.NewCollection(resource.WithInitialRecord("a", mini.Conc(c.Msg)))
		res, _ := col.Get("a", resource.WithReadMask(fm))
		o.Res = mini.Abs(res)
		after, _ := col.Get("a")
		o.Post = mini.Abs(after)
	})
	emit("collection.list", func(o *projObs) {
		col := resource.NewCollection(resource.WithInitialRecord("a", mini.Conc(c.Msg)))
		res := col.List(resource.WithReadMask(fm))
		if len(res) == 1 {
			o.Res = mini.Abs(res[0])
		} else {
			o.Res.X = append(o.Res.X, "<list-len>")
		}
		after, _ := col.Get("a")
		o.Post = mini.Abs(after)
	})
	// a path that continues through a map: also through a map whose values are MESSAGES and which is populated
	// (the miniature schema has a string map only; the concrete probe keeps the no-panic clause honest for both)
	for _, pth := range c.Mask.Paths {
		if len(pth) == 2 && pth[0] == "m" {
			probe := &testproto.TestAllTypes{MapStringNestedMessage: map[string]*testproto.TestAllTypes_NestedMessage{"k": {A: 1}}}
			pm := &fieldmaskpb.FieldMask{Paths: []string{"map_string_nested_message.a"}}
			emit("probe.map-of-messages", func(o *projObs) {
				o.Msg, o.Post = mini.Empty(), mini.Empty()
				o.Valid = hx.Code(masks.NewResponseFilter(masks.WithFieldMask(pm)).Validate(probe))
				masks.NewResponseFilter(masks.WithFieldMask(pm)).FilterClone(probe)
				masks.NewResponseFilter(masks.WithFieldMask(pm)).Filter(proto.Clone(probe))
				resource.NewValue(resource.WithInitialValue(probe)).Get(resource.WithReadMask(pm))
				col := resource.NewCollection(resource.WithInitialRecord("a", probe))
				col.Get("a", resource.WithReadMask(pm))
				col.List(resource.WithReadMask(pm))
			})
			break
		}
	}
	if valid != "OK" {
		// a panic inside Pull's forwarding goroutine cannot be recovered by the caller and would
		// take the harness down with it; the same filter code is exercised by the Get vias above
		return
	}
	emit("value.pull.seed", func(o *projObs) {
		v := resource.NewValue(resource.WithInitialValue(mini.Conc(c.Msg)))
		ctx, cancel := context.WithCancel(context.Background())
		defer cancel()
		ch := v.Pull(ctx, resource.WithReadMask(fm), resource.WithBackpressure(true))
		select {
		case ev, ok := <-ch:
			if !ok {
				// the forwarding goroutine died (a panic there kills the process; closed = gave up)
				o.Res.X = append(o.Res.X, "<closed>")
			} else {
				o.Res = mini.Abs(ev.Value)
			}
		case <-time.After(5 * time.Second):
			o.Res.X = append(o.Res.X, "<timeout>")
		}
		o.Post = mini.Abs(v.Get())
	})
	// a subscriber without a mask next to one with this mask: the projection is made for the masked one alone,
	// the other still holds the whole value (judged as the nil-mask projection)
	emit("value.pull.beside-masked", func(o *projObs) {
		o.Mask = mini.Mask{Nil: true, Paths: [][]string{}}
		v := resource.NewValue(resource.WithInitialValue(mini.Conc(mini.Empty())))
		ctx, cancel := context.WithCancel(context.Background())
		defer cancel()
		a := v.Pull(ctx, resource.WithReadMask(fm), resource.WithBackpressure(true), resource.WithUpdatesOnly(true))
		b := v.Pull(ctx, resource.WithBackpressure(true), resource.WithUpdatesOnly(true))
		go func() { _, _ = v.Set(mini.Conc(c.Msg)) }()
		var evB *resource.ValueChange
		for _, ch := range []<-chan *resource.ValueChange{a, b} {
			select {
			case ev, ok := <-ch:
				if !ok {
					o.Res.X = append(o.Res.X, "<closed>")
					return
				}
				evB = ev
			case <-time.After(5 * time.Second):
				o.Res.X = append(o.Res.X, "<timeout>")
				return
			}
		}
		o.Res = mini.Abs(evB.Value)
		o.Post = mini.Abs(v.Get())
	})
	emit("collection.pullid.seed", func(o *projObs) {
		col := resource.NewCollection(resource.WithInitialRecord("a", mini.Conc(c.Msg)), resource.WithInitialRecord("b", mini.Conc(mini.Empty())))
		ctx, cancel := context.WithCancel(context.Background())
		defer cancel()
		ch := col.PullID(ctx, "a", resource.WithReadMask(fm), resource.WithBackpressure(true))
		select {
		case ev, ok := <-ch:
			if !ok {
				o.Res.X = append(o.Res.X, "<closed>")
			} else {
				o.Res = mini.Abs(ev.Value)
			}
		case <-time.After(5 * time.Second):
			o.Res.X = append(o.Res.X, "<timeout>")
		}
		after, _ := col.Get("a")
		o.Post = mini.Abs(after)
	})
	emit("collection.pull.update", func(o *projObs) {
		// the update event's NEW value is the projection of the written message,
		// its OLD value the projection of the previous one
		col := resource.NewCollection(resource.WithInitialRecord("a", mini.Conc(mini.Empty())))
		ctx, cancel := context.WithCancel(context.Background())
		defer cancel()
		ch := col.Pull(ctx, resource.WithReadMask(fm), resource.WithBackpressure(true), resource.WithUpdatesOnly(true))
		done := make(chan *resource.CollectionChange, 2)
		go func() {
			for ev := range ch {
				done <- ev
			}
		}()
		if _, err := col.Update("a", mini.Conc(c.Msg)); err != nil {
			o.Res.X = append(o.Res.X, "<update-err>")
			return
		}
		if _, err := col.Update("a", mini.Conc(mini.Empty())); err != nil {
			o.Res.X = append(o.Res.X, "<update-err>")
			return
		}
		var evs []*resource.CollectionChange
		for len(evs) < 2 {
			select {
			case ev := <-done:
				evs = append(evs, ev)
			case <-time.After(5 * time.Second):
				o.Res.X = append(o.Res.X, "<timeout>")
				return
			}
		}
		o.Res = mini.Abs(evs[0].NewValue)
		old := mini.Abs(evs[1].OldValue)
		if !proto.Equal(mini.Conc(old), mini.Conc(o.Res)) || len(old.X) > 0 {
			o.Res.X = append(o.Res.X, "<old-differs-from-new>")
		}
		o.Post = c.Msg
	})
	emit("collection.pull.remove", func(o *projObs) {
		// the OLD value of a REMOVE event is the projection of the removed message
		col := resource.NewCollection(resource.WithInitialRecord("a", mini.Conc(c.Msg)))
		ctx, cancel := context.WithCancel(context.Background())
		defer cancel()
		ch := col.Pull(ctx, resource.WithReadMask(fm), resource.WithBackpressure(true), resource.WithUpdatesOnly(true))
		done := make(chan *resource.CollectionChange, 1)
		go func() {
			for ev := range ch {
				done <- ev
				return
			}
		}()
		if _, err := col.Delete("a"); err != nil {
			o.Res.X = append(o.Res.X, "<delete-err>")
			return
		}
		select {
		case ev := <-done:
			o.Res = mini.Abs(ev.OldValue)
			if ev.NewValue != nil {
				o.Res.X = append(o.Res.X, "<remove-with-new-value>")
			}
		case <-time.After(5 * time.Second):
			o.Res.X = append(o.Res.X, "<timeout>")
		}
		o.Post = c.Msg
	})
}

// ---- field names of which one begins another's (spec/Masks.tla, GenNames) -------------------------------

type nameVals struct {
	St    int `json:"st"`
	Stcts int `json:"stcts"`
	Pc    int `json:"pc"`
}
type namesObs struct {
	// CrossErr: the same update mask validated against ANOTHER message type (the all-kinds test message, which has
	// none of these fields) right after it was accepted for this one
	CrossErr string    `json:"crossErr"`
	K        string    `json:"k"`
	Via      string    `json:"via"`
	M        mini.Mask `json:"M"`
	W        mini.Mask `json:"W"`
	Err      string    `json:"err"`
	Old      nameVals  `json:"old"`
	Post     nameVals  `json:"post"`
	Panic    string    `json:"panic"`
}

var occNames = map[string]string{"st": "state", "stct": "state_change_time", "s": "seconds", "pc": "people_count"}

func occMask(m mini.Mask) *fieldmaskpb.FieldMask {
	if m.Nil {
		return nil
	}
	fm := &fieldmaskpb.FieldMask{}
	for _, p := range m.Paths {
		segs := make([]string, len(p))
		for i, s := range p {
			segs[i] = occNames[s]
		}
		fm.Paths = append(fm.Paths, strings.Join(segs, "."))
	}
	return fm
}

func occVals(o *traits.Occupancy) nameVals {
	return nameVals{St: int(o.GetState()), Stcts: int(o.GetStateChangeTime().GetSeconds()), Pc: int(o.GetPeopleCount())}
}

// reads over the same schema (C06): the update mask of the case doubles as a read mask
func runReadNames(c maskCase, out *hx.Out) {
	old := &traits.Occupancy{State: traits.Occupancy_OCCUPIED, StateChangeTime: &timestamppb.Timestamp{Seconds: 7}, PeopleCount: 3}
	base := namesObs{K: "rnames", M: c.M, W: c.W, Old: occVals(old), Post: occVals(old)}
	{
		o := base
		o.Via = "filterclone"
		o.Panic = hx.Catch(func() {
			res := masks.NewResponseFilter(masks.WithFieldMask(occMask(c.M))).FilterClone(old)
			o.Post = occVals(res.(*traits.Occupancy))
		})
		out.Write(o)
	}
	{
		o := base
		o.Via = "value"
		o.Panic = hx.Catch(func() {
			v := resource.NewValue(resource.WithInitialValue(old))
			o.Post = occVals(v.Get(resource.WithReadMask(occMask(c.M))).(*traits.Occupancy))
		})
		out.Write(o)
	}
}

func runNames(c maskCase, out *hx.Out) {
	old := func() *traits.Occupancy {
		return &traits.Occupancy{State: traits.Occupancy_OCCUPIED, StateChangeTime: &timestamppb.Timestamp{Seconds: 7}, PeopleCount: 3}
	}
	wr := func() *traits.Occupancy {
		return &traits.Occupancy{State: traits.Occupancy_UNOCCUPIED, StateChangeTime: &timestamppb.Timestamp{Seconds: 9}, PeopleCount: 5}
	}
	base := namesObs{K: "names", M: c.M, W: c.W, Old: occVals(old()), Post: occVals(old())}
	{
		o := base
		o.Via = "updater"
		o.Panic = hx.Catch(func() {
			u := masks.NewFieldUpdater(masks.WithUpdateMask(occMask(c.M)), masks.WithWritableFields(fieldmaskpb.Union(occMask(c.W), nil)))
			src := wr()
			err := u.Validate(src)
			o.Err = hx.Code(err)
			if err == nil {
				dst := old()
				u.Merge(dst, src)
				o.Post = occVals(dst)
			}
			o.CrossErr = hx.Code(masks.NewFieldUpdater(masks.WithUpdateMask(occMask(c.M))).Validate(&testproto.TestAllTypes{}))
		})
		out.Write(o)
	}
	{
		o := base
		o.Via = "value"
		o.Panic = hx.Catch(func() {
			v := resource.NewValue(resource.WithInitialValue(old()), resource.WithWritableFields(occMask(c.W)))
			_, err := v.Set(wr(), resource.WithUpdateMask(occMask(c.M)))
			o.Err = hx.Code(err)
			o.Post = occVals(v.Get().(*traits.Occupancy))
		})
		out.Write(o)
	}
	{
		o := base
		o.Via = "collection"
		o.Panic = hx.Catch(func() {
			col := resource.NewCollection(resource.WithInitialRecord("a", old()), resource.WithWritableFields(occMask(c.W)))
			_, err := col.Update("a", wr(), resource.WithUpdateMask(occMask(c.M)))
			o.Err = hx.Code(err)
			got, _ := col.Get("a")
			o.Post = occVals(got.(*traits.Occupancy))
		})
		out.Write(o)
	}
}
