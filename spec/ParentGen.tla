---------------------------- MODULE ParentGen ----------------------------
(***************************************************************************)
(* Gen use of Parent.tla: random walks (initial children given to the     *)
(* constructor, then 10..MaxOps operations with random argument lists in  *)
(* any order, with repetitions, naming present and absent traits and      *)
(* children) printed as CASE lines.  No verdict here: ParentTrace.tla     *)
(* checks what the real model did.                                        *)
(***************************************************************************)
EXTENDS Parent, TLC, Json

CONSTANTS NCases, MaxOps
VARIABLE c

R(S) == RandomElement(S)
Flip(z, pct) == RandomElement(1..100) <= pct
Pick(z, seq) == seq[RandomElement(1..Len(seq))]
RandSub(z, pct) == { t \in Traits : Flip(z, pct) }
ArgList(z) == LET n == Pick(z, <<0, 1, 1, 1, 1, 2, 2, 3>>) IN [j \in 1..n |-> R(Traits)]

Op(z) ==
  LET op == Pick(z, <<"AddChildTrait", "AddChildTrait", "AddChildTrait", "RemoveChildTrait", "RemoveChildTrait",
                      "RemoveChildTrait", "RemoveChildTrait", "AddChild", "RemoveChildByName">>)
  IN [op |-> op, name |-> R(ChildNames),
      traits |-> IF op = "AddChild" THEN SortedTraits(RandSub(z, 40)) ELSE ArgList(z)]

InitChildren(z) ==
  LET all == [j \in 1..Len(ChildOrder) |-> [name |-> ChildOrder[j], traits |-> SortedTraits(RandSub(z, 50)), keep |-> Flip(z, 50)]]
      kept == SelectSeq(all, LAMBDA x : x.keep)
  IN [j \in 1..Len(kept) |-> [name |-> kept[j].name, traits |-> kept[j].traits]]

\* a random permutation of a sequence
RECURSIVE Shuffle(_, _)
Shuffle(z, s) == IF s = <<>> THEN <<>>
                 ELSE LET i == RandomElement(1..Len(s))
                      IN <<s[i]>> \o Shuffle(z, [j \in 1..(Len(s) - 1) |-> IF j < i THEN s[j] ELSE s[j + 1]])
\* the items of one kind spread over options: all in one, one each, or split in two
Groups(z, items) ==
  IF items = <<>> THEN <<>>
  ELSE LET how == Pick(z, <<"one", "each", "split">>)
           i == RandomElement(1..Len(items))
       IN IF how = "one" \/ (how = "split" /\ i = Len(items)) THEN <<items>>
          ELSE IF how = "each" THEN [j \in 1..Len(items) |-> <<items[j]>>]
          ELSE <<SubSeq(items, 1, i), SubSeq(items, i + 1, Len(items))>>

Prog(k) ==
  LET gs == Groups(k, InitChildren(k))
      none == [kind |-> "clock", children |-> <<>>, via |-> "model"]
      opts == Shuffle(k, [j \in 1..Len(gs) |-> [none EXCEPT !.kind = "children", !.children = gs[j], !.via = Pick(k, <<"model", "model", "resource">>)]]
                         \o (IF Flip(k, 50) THEN <<none>> ELSE <<>>))
  IN [model |-> "parent", n |-> k, cfg |-> [opts |-> opts, init |-> ConfChildren(opts)],
      ops |-> [j \in 1..R(10..MaxOps) |-> Op(k)]]

GenInit == c \in { Prog(k) : k \in 1..NCases }
GenNext == UNCHANGED c
EmitCase == PrintT("CASE " \o ToJson(c))
=============================================================================
