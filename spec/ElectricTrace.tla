--------------------------- MODULE ElectricTrace ---------------------------
(***************************************************************************)
(* Trace use of Electric.tla.  obs.ndjson holds what the real              *)
(* electricpb.Model / ModelServer did (harness/cmd/electric):              *)
(*                                                                         *)
(*  kind "step"     one operation of a replayed sequence: the state read   *)
(*                  back before the call (Modes(), ActiveMode(),           *)
(*                  NormalMode(), through the servers for api = "server"), *)
(*                  the call, the clock, the error code, the state after.  *)
(*                  Checked on its own: the clauses of C19 (StepFails of   *)
(*                  Electric.tla, the predicates TLC also checks on the    *)
(*                  specification's own steps) must hold of the step.      *)
(*  kind "quiesce"  the state after 2-4 goroutines have finished a round   *)
(*                  of free-running operations on one model                *)
(*  kind "cclear"   one response of ClearActiveMode given while other      *)
(*                  goroutines were writing                                *)
(*  kind "pair"     a forced schedule: two calls making different modes    *)
(*                  normal, parked between check and write (cases printed  *)
(*                  by ElectricConc.tla)                                   *)
(*  kind "cnormal"  the table read right after a successful                *)
(*                  UpdateMode(normal = true) while others do the same     *)
(*  kind "mstream"  the table obtained by folding everything PullModes     *)
(*                  delivered so far (one line per delivered change)       *)
(*  kind "aevent"   one delivery of PullActiveMode with the one before it  *)
(*                  (both asserted only for Model subscriptions with       *)
(*                  backpressure; the server streams are summed up in the  *)
(*                  quiesce line: folded, lastActive)                      *)
(*                                                                         *)
(* Fails(t) = the clauses of C19 the line falsifies (a verdict);           *)
(* Notes(t) = documented behaviour outside the text of C19 that the line   *)
(* departs from (reported as a note, never a verdict).                     *)
(***************************************************************************)
EXTENDS Electric, Json

Obs == ndJsonDeserialize("obs.ndjson")

SeqIds(seq) == { seq[k].id : k \in 1..Len(seq) }
ModesOf(seq) == [i \in SeqIds(seq) |->
                   LET k == CHOOSE k \in 1..Len(seq) : seq[k].id = i
                   IN [normal |-> seq[k].normal, title |-> seq[k].title, start |-> seq[k].start]]
StateOf(s, changed) == [modes |-> ModesOf(s.modes), active |-> s.active, changed |-> changed]

\* the step a "step" line records, in the shape of Electric.tla
XOf(t) == [pre |-> StateOf(t.pre, t.changed), now |-> t.now, op |-> t.op, err |-> t.err, ret |-> t.ret,
           post |-> StateOf(t.post, t.changed \/ (t.op.op \in ActiveOps /\ t.err = "OK"))]

\* the three state clauses of C19 on a state seen while / after goroutines ran
ConcFails(modes, active, changed) ==
       If(AMO(modes), "at-most-one-normal")
  \cup If(changed => Has(modes, active.id), "active-refers-to-missing-mode")

Fails(t) ==
  CASE t.kind = "step" ->
         \* a panic is no answer at all: none of the operations of the property may crash
         If(t.panic = "", "panic") \cup StepFails(XOf(t))
    [] t.kind = "quiesce" ->
         If(t.panic = "", "panic") \cup ConcFails(ModesOf(t.state.modes), t.state.active, t.changed)
         \* what the streams add up to at this point (the server streams may drop or merge older
         \* changes, so only their sum at quiescence is looked at)
         \cup (IF t.drained
               THEN { "streamed-" \o c : c \in ConcFails(ModesOf(t.folded), t.lastActive, t.changed) } ELSE {})
    [] t.kind = "cclear" ->
         \* a response of ClearActiveMode given while other goroutines were writing (random mix; one
         \* goroutine moving the normal flag between two modes; a forced schedule with the flag moved
         \* while the clear waits for the model lock): lookup and switch are one atomic step, so the
         \* returned mode - the copy taken at the instant of the switch - is normal
         If(t.err # "Panic", "panic") \cup If(ClearResponseNormal(t.err, t.ret), "clear-selects-normal")
    [] t.kind = "pair" ->
         \* two calls that each make a different mode normal, parked between "check" and "write"
         \* until both were there (or a timeout): the table has at most one normal mode afterwards,
         \* and the two error codes are those of one of the two serial orders of the atomic steps of
         \* Electric.tla (no normal mode before: exactly one call is refused; another normal mode
         \* before: both are) - cf. AtMostOneNormal / Serializable of ElectricConc.tla
         LET s0 == StateOf(t.pre, t.pre.active.id # "")
             a1 == Step(s0, t.now, t.ops[1], "n1")
             a2 == Step(a1.post, t.now, t.ops[2], "n2")
             b2 == Step(s0, t.now, t.ops[2], "n2")
             b1 == Step(b2.post, t.now, t.ops[1], "n1")
         IN If(t.panic = "", "panic")
            \cup If(AMO(ModesOf(t.post.modes)), "at-most-one-normal")
            \* a switch to x against DeleteMode(x) (ActiveExists of ElectricConc.tla): the active mode
            \* exists afterwards, and either the switch came first (delete refused) or the delete did
            \* (switch refused)
            \cup If(t.post.active.id = "" \/ Has(ModesOf(t.post.modes), t.post.active.id), "active-refers-to-missing-mode")
            \cup If(<<t.errs[1], t.errs[2]>> \in {<<a1.err, a2.err>>, <<b1.err, b2.err>>},
                    IF \E k \in 1..2 : t.ops[k].op = "Delete" THEN "outcome-of-no-serial-order"
                    ELSE "exactly-one-of-two-normal-writers-refused")
    [] t.kind = "cnormal" ->
         \* the table read by a caller whose UpdateMode(normal = true) just succeeded, others racing
         If(AMO(ModesOf(t.modes)), "at-most-one-normal")
    [] t.kind = "mstream" ->
         \* every table a subscriber with backpressure sees (reliable: nothing is dropped or merged on
         \* such a stream and the fold equalled Modes() at the next quiescent point, i.e. it is the
         \* table's history)
         IF t.reliable THEN If(AMO(ModesOf(t.modes)), "at-most-one-normal") ELSE {}
    [] t.kind = "aevent" ->
         \* a streamed active mode with another id than the one streamed before it is a switch:
         \* its start time is the clock at the change (the change time of the event), unless it
         \* came from SetActiveMode (the harness marks those with start >= 900)
         IF t.reliable /\ t.cur.id # t.prev.id /\ t.cur.start < 900
         THEN If(t.cur.start = t.ct, "start-stamped-on-switch") ELSE {}
    [] OTHER -> {"unknown-line"}

Notes(t) ==
  CASE t.kind = "step" ->
         StepNotes(XOf(t))
         \cup If(Cardinality(SeqIds(t.post.modes)) = Len(t.post.modes), "duplicate-id-listed")
         \cup If(~t.readDiff, "servers-read-differs-from-model")
         \cup If(t.post.normal.has = (NormalIds(ModesOf(t.post.modes)) # {})
                 /\ (t.post.normal.has => t.post.normal.id \in NormalIds(ModesOf(t.post.modes))), "normal-mode-read")
    [] t.kind = "quiesce" ->
         If(t.drained /\ ModesOf(t.folded) = ModesOf(t.state.modes), "stream-fold-differs-from-modes")
    [] OTHER -> {}

BadLines == { k \in 1..Len(Obs) : Fails(Obs[k]) # {} }
NoteLines == { k \in 1..Len(Obs) : Notes(Obs[k]) # {} }

TraceInit == st = InitState /\ now = 0
TraceNext == UNCHANGED vars
EmitBad == \A k \in BadLines : PrintT("BAD " \o ToJson([line |-> k, fails |-> Fails(Obs[k])]))
EmitNotes == \A k \in NoteLines : PrintT("NOTE " \o ToJson([line |-> k, notes |-> Notes(Obs[k])]))
TraceChecked == EmitBad /\ EmitNotes /\ PrintT("CHECKED " \o ToString(Len(Obs)))
=============================================================================
